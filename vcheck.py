#!/usr/bin/env python3
"""Driver of the fixed_math runtime-monitoring checks.

  vcheck.py <ID> --tier quick|thorough      run the check for one property
  vcheck.py <ID> --replay <file>            re-judge one recorded event against the current tree
  vcheck.py --setup                         build the monitor and the quick-tier configurations

Exit status: 0 held on everything observed (listed known findings are printed as KNOWN-FINDING lines),
1 a violation that known_findings.json does not list (VIOLATION property=<id> replay=<path> per class),
2 harness failure / inconclusive (build error, watchdog, unreached stratum).
"""
import sys, os, json, time, hashlib, subprocess, shutil, argparse, glob, re
from concurrent.futures import ThreadPoolExecutor

VERIF = os.path.dirname(os.path.abspath(__file__))
REPO = os.environ.get('VERIF_REPO', '/repo')
CACHE = os.path.join(VERIF, '.cache')
HARNESS = os.path.join(VERIF, 'harness')
LIB_INC = os.path.join(REPO, 'fixed_lib', 'include')
LIB_SRC = os.path.join(REPO, 'fixed_lib', 'src', 'fixed_math.cc')
HOOK_DEFINE = 'FIXEDMATH_VERIF'   # guard reserved for source hooks (none needed so far); always defined by our builds
NCPU = min(16, os.cpu_count() or 4)

sys.path.insert(0, os.path.join(VERIF, 'harness'))


class Inconclusive(Exception):
    pass


def log(*a):
    print(*a, file=sys.stderr, flush=True)


# ----------------------------------------------------------------------------- configurations
class Config:
    def __init__(self, compiler, opt, std, abacus=False, extra=(), tag=None, kind='so'):
        self.compiler, self.opt, self.std, self.abacus, self.extra, self.kind = compiler, opt, std, abacus, tuple(extra), kind
        cc = 'gcc' if compiler == 'g++' else 'clang'
        self.name = tag or f"{cc}{opt}-{std}{'-abacus' if abacus else ''}"

    def flags(self):
        f = [f'-std={self.std}', self.opt, '-w', f'-D{HOOK_DEFINE}=1', f'-I{LIB_INC}']
        if self.abacus:
            f.append('-DFIXEDMATH_ENABLE_SQRT_ABACUS_ALGO')
        f += list(self.extra)
        return f


def cfg(compiler, opt, std='c++17', abacus=False, **kw):
    return Config(compiler, opt, std, abacus, **kw)


# clang-O2 mirrors a CMake Release build (-DNDEBUG): code hidden in assert() is a configuration dimension too
# the clang configuration mirrors a release build of a project that uses the compiler defaults: GNU dialect (no __STRICT_ANSI__),
# -DNDEBUG, -funsigned-char (the default on ARM/PowerPC Linux) and -fno-math-errno (math_errhandling loses MATH_ERRNO; implied by
# -ffast-math but harmless to IEEE semantics on its own): code hidden behind those switches is a configuration dimension too.
# The forced-constant-evaluation configuration is also the ISO-dialect -march=native one (FP_FAST_FMA, __FMA__, __AVX2__, ...) and is
# built with -fno-inline: functions that are not gnu::always_inline (the conversion operators, the compiled table functions'
# callers) are emitted and called out of line at -O2, which is where a false [[gnu::const]] on them shows under GCC.
FORCE_CE = ['-include', os.path.join(HARNESS, 'force_ce.h')]   # harness/force_ce.h: is_constant_evaluated() answers true at run time
# gcc-O0: umbrella header, GNU dialect, -ftrapv (signed overflow aborts in this uninstrumented build for every monitor's inputs),
# _GLIBCXX_ASSERTIONS (std::array bounds)
QUICK_CFGS = [cfg('g++', '-O0', 'gnu++17', extra=['-DVERIF_UMBRELLA=1', '-ftrapv', '-D_GLIBCXX_ASSERTIONS'], tag='gcc-O0-gnu++17-umbrella-trapv'), cfg('g++', '-O2'), cfg('clang++', '-O2', 'gnu++17', extra=['-DNDEBUG', '-funsigned-char', '-fno-math-errno'], tag='clang-O2-gnu++17-ndebug-uchar-nomatherrno'),
              cfg('g++', '-O2', 'c++2b', extra=FORCE_CE + ['-march=native', '-fno-inline'], tag='gcc-O2-c++2b-ce-native-noinline')]
# the abacus configuration is also the GNU-dialect, -march=native (LZCNT/BMI/AVX2 builtins selected by feature macros) one
ABACUS_QUICK = [cfg('g++', '-O2', 'gnu++17', abacus=True, extra=['-march=native'], tag='gcc-O2-gnu++17-abacus-native')]


def thorough_cfgs():
    out = []
    for cc in ('g++', 'clang++'):
        for o in ('-O0', '-O1', '-O2', '-O3'):
            for std in ('c++17', 'c++20'):
                if o == '-O3':
                    out.append(cfg(cc, o, std, extra=['-DNDEBUG'], tag=f"{'gcc' if cc == 'g++' else 'clang'}-O3-{std}-ndebug"))
                else:
                    out.append(cfg(cc, o, std))
        out.append(cfg(cc, '-O2', 'c++2b'))
        out.append(cfg(cc, '-Os'))
        out.append(cfg(cc, '-O2', 'gnu++17'))
        out.append(cfg(cc, '-O0', 'gnu++17', extra=['-DVERIF_UMBRELLA=1'], tag=f"{'gcc' if cc == 'g++' else 'clang'}-O0-gnu++17-umbrella"))
        out.append(cfg(cc, '-O3', 'c++17', extra=['-march=native'], tag=f"{'gcc' if cc == 'g++' else 'clang'}-O3-c++17-native"))
        out.append(cfg(cc, '-O1', 'c++20', extra=FORCE_CE, tag=f"{'gcc' if cc == 'g++' else 'clang'}-O1-c++20-ce"))
        out.append(cfg(cc, '-O1', 'gnu++20', extra=['-funsigned-char'], tag=f"{'gcc' if cc == 'g++' else 'clang'}-O1-gnu++20-uchar"))
        out.append(cfg(cc, '-O2', 'c++17', extra=['-fno-math-errno'], tag=f"{'gcc' if cc == 'g++' else 'clang'}-O2-c++17-nomatherrno"))
        out.append(cfg(cc, '-O2', 'c++20', extra=['-march=native'], tag=f"{'gcc' if cc == 'g++' else 'clang'}-O2-c++20-native"))
    return out


def abacus_thorough():
    return [cfg(cc, o, abacus=True) for cc in ('g++', 'clang++') for o in ('-O0', '-O2')] + \
        [cfg(cc, '-O2', 'gnu++17', abacus=True, extra=['-march=native'], tag=f"{'gcc' if cc == 'g++' else 'clang'}-O2-gnu++17-abacus-native") for cc in ('g++', 'clang++')]


NEEDS_ABACUS = {'C08', 'C12', 'C13', 'C14'}
# properties whose entry points take no floating-point argument and use no floating-point intermediate: for them a build with
# -ffast-math (which defines __FAST_MATH__/__FINITE_MATH_ONLY__) and -Os (__OPTIMIZE_SIZE__) must behave identically
INTEGER_ONLY = {'C01', 'C02', 'C03', 'C06', 'C09', 'C10', 'C11', 'C15', 'C17', 'C18', 'C19'}


# properties with floating-point inputs or intermediates whose judged behaviour on finite doubles does not rely on IEEE NaN/inf
# handling: a -ffast-math build is judged on what such a build still promises (C05: finite inputs only; C13: sqrt of a negative
# through std::sqrt is skipped, it relies on a double NaN; C12 asin/acos domain test and C14 hypot never produce a double NaN)
FINITE_FASTMATH = {'C05', 'C12', 'C13', 'C14'}


def configs_for(prop, tier):
    if tier == 'quick':
        c = list(QUICK_CFGS)
        if prop in NEEDS_ABACUS:
            c += ABACUS_QUICK
        if prop in INTEGER_ONLY:
            c += [cfg('g++', '-Os', 'c++20', extra=['-ffast-math'], tag='gcc-Os-c++20-fastmath')]
        if prop in FINITE_FASTMATH:
            c += [cfg('g++', '-O2', 'c++20', extra=['-ffast-math'], tag='gcc-O2-c++20-fastmath')]
        if prop == 'C08':
            c += [cfg('clang++', '-O0', 'c++20'), cfg('g++', '-O3', 'c++2b')]
        elif prop not in INTEGER_ONLY and prop not in FINITE_FASTMATH:
            # C04, C07, C16, C20: every other property already has a configuration that is C++20 *and* evaluates at run time
            # (code behind `#if __cplusplus > 201703L` + `!is_constant_evaluated()`, round 10: C01-p2, C03-p2)
            c += [cfg('g++', '-O1', 'c++20')]
    else:
        c = thorough_cfgs()
        if prop in NEEDS_ABACUS:
            c += abacus_thorough()
        if prop in INTEGER_ONLY:
            c += [cfg('g++', '-Os', 'c++20', extra=['-ffast-math'], tag='gcc-Os-c++20-fastmath'), cfg('clang++', '-Oz', 'c++17', extra=['-ffast-math'], tag='clang-Oz-c++17-fastmath')]
        if prop in FINITE_FASTMATH:
            c += [cfg('g++', '-O2', 'c++20', extra=['-ffast-math'], tag='gcc-O2-c++20-fastmath')]
    return c


# ----------------------------------------------------------------------------- hashing / cache
def sha(*parts):
    h = hashlib.sha256()
    for p in parts:
        h.update(p if isinstance(p, bytes) else str(p).encode())
        h.update(b'\0')
    return h.hexdigest()


_tree_hash = None


def tree_hash():
    """content hash of every library file a build can see (working tree, not HEAD)"""
    global _tree_hash
    if _tree_hash is None:
        h = hashlib.sha256()
        root = os.path.join(REPO, 'fixed_lib')
        for d, dirs, files in sorted(os.walk(root)):
            dirs.sort()
            for f in sorted(files):
                p = os.path.join(d, f)
                h.update(os.path.relpath(p, root).encode() + b'\0')
                with open(p, 'rb') as fh:
                    h.update(fh.read())
                h.update(b'\0')
        _tree_hash = h.hexdigest()[:20]
    return _tree_hash


def file_hash(paths):
    h = hashlib.sha256()
    for p in sorted(paths):
        h.update(os.path.basename(p).encode() + b'\0')
        with open(p, 'rb') as fh:
            h.update(fh.read())
    return h.hexdigest()[:20]


_compiler_ver = {}


def compiler_version(cc):
    if cc not in _compiler_ver:
        _compiler_ver[cc] = subprocess.run([cc, '--version'], capture_output=True, text=True).stdout.splitlines()[0]
    return _compiler_ver[cc]


def run(cmd, **kw):
    return subprocess.run(cmd, capture_output=True, text=True, **kw)


def prune_cache(sub, keep):
    keep = max(keep, int(os.environ.get('VERIF_CACHE_KEEP', '0')))   # tools_round.py checks several mutated trees at once: they must not prune each other's objects
    d = os.path.join(CACHE, sub)
    if not os.path.isdir(d):
        return
    ents = sorted((os.path.getmtime(os.path.join(d, e)), e) for e in os.listdir(d))
    for _, e in ents[:-keep]:
        shutil.rmtree(os.path.join(d, e), ignore_errors=True)


def build_object(c):
    """compile wrappers.cc + fixed_math.cc from the working tree for configuration c -> path of the .so"""
    src = os.path.join(HARNESS, 'wrappers.cc')
    d = os.path.join(CACHE, 'obj', tree_hash())
    os.makedirs(d, exist_ok=True)
    os.utime(d)
    key = sha(file_hash([src, os.path.join(HARNESS, 'force_ce.h')]), compiler_version(c.compiler), ' '.join(c.flags()), c.kind)[:16]
    out = os.path.join(d, f'{c.name}-{key}.so')
    if os.path.exists(out):
        return out
    tmp = out + f'.tmp{os.getpid()}'
    cmd = [c.compiler] + c.flags() + ['-fPIC', '-shared', '-Wl,-Bsymbolic', f'-DVERIF_CFG="{c.name}"', src, LIB_SRC, '-o', tmp]
    r = run(cmd)
    if r.returncode != 0:
        raise Inconclusive(f'build of configuration {c.name} failed:\n' + r.stderr[-3000:])
    os.replace(tmp, out)
    return out


def build_configs(cfgs):
    with ThreadPoolExecutor(NCPU) as ex:
        paths = list(ex.map(build_object, cfgs))
    prune_cache('obj', 3)
    return paths


def build_monitor():
    srcs = sorted(glob.glob(os.path.join(HARNESS, 'monitor', '*.cc')))
    hdrs = sorted(glob.glob(os.path.join(HARNESS, 'monitor', '*.h')))
    msan = os.environ.get('VERIF_MONITOR_SAN', '')   # debugging aid for the monitor itself: address | thread
    san = [f'-fsanitize={msan}', '-fno-omit-frame-pointer'] if msan in ('address', 'thread') else []
    key = file_hash(srcs + hdrs) + (f'-{msan}' if san else '')
    d = os.path.join(CACHE, 'monitor', key)
    exe = os.path.join(d, 'monitor')
    if os.path.exists(exe):
        os.utime(d)
        return exe
    os.makedirs(d, exist_ok=True)

    def comp(s):
        o = os.path.join(d, os.path.basename(s)[:-3] + '.o')
        r = run(['g++', '-std=c++17', '-O2', '-g', '-Wall', '-Wextra', '-Wno-unused-parameter'] + san + ['-c', s, '-o', o])
        if r.returncode != 0:
            raise Inconclusive('monitor build failed: ' + s + '\n' + r.stderr[-4000:])
        return o
    with ThreadPoolExecutor(NCPU) as ex:
        objs = list(ex.map(comp, srcs))
    r = run(['g++', '-O2', '-g', '-rdynamic'] + san + objs + ['-o', exe + '.tmp', '-ldl', '-lpthread', '-lquadmath'])
    if r.returncode != 0:
        raise Inconclusive('monitor link failed\n' + r.stderr[-4000:])
    os.replace(exe + '.tmp', exe)
    prune_cache('monitor', 2)
    return exe


# ----------------------------------------------------------------------------- known findings
def load_known():
    p = os.path.join(VERIF, 'known_findings.json')
    if not os.path.exists(p):
        return []
    with open(p) as f:
        return json.load(f).get('findings', [])


def match_known(prop, key, known):
    for k in known:
        if k.get('property') == prop and k.get('key') == key and k.get('status') == 'open':
            return k
    return None


# ----------------------------------------------------------------------------- monitor arm
def run_monitor(prop, tier, seed, cfgs, extra_args=(), env_add=None):
    exe = build_monitor()
    paths = build_configs(cfgs)
    rundir = os.path.join(CACHE, 'run')
    os.makedirs(rundir, exist_ok=True)
    out = os.path.join(rundir, f'{prop}-{tier}-{os.getpid()}.json')
    cmd = [exe, prop, tier, str(seed), out, '--threads', str(NCPU)]
    scale = os.environ.get('VERIF_SCALE')
    if scale:
        cmd += ['--scale', scale]
    cmd += list(extra_args) + paths
    watchdog = int(os.environ.get('VERIF_WATCHDOG_S', '900' if tier == 'quick' else '14400'))
    for attempt in (1, 2):
        try:
            r = subprocess.run(cmd, capture_output=True, text=True, timeout=watchdog, env=dict(os.environ, **(env_add or {})))
        except subprocess.TimeoutExpired:
            if attempt == 2:
                raise Inconclusive(f'monitor watchdog ({watchdog}s) fired twice')
            log('watchdog fired, retrying once')
            continue
        if r.returncode != 0:
            raise Inconclusive(f'monitor exited with {r.returncode}: {r.stderr[-2000:]}')
        break
    with open(out) as f:
        res = json.load(f)
    os.unlink(out)
    return res


# ----------------------------------------------------------------------------- evidence / verdict
ASSUMPTIONS = [
    'reference values: exact __int128 integer models; glibc x87 long double libm (<= 1 ulp of 2^-63) with 2^-40 slack for accuracy bounds',
    'compilers present in the sandbox: g++ 12.2, clang++ 14.0.6 (other compilers named by the README are not observable here)',
    'configurations are the listed builds of wrappers.cc + fixed_math.cc from /repo working tree, loaded side by side in one monitor process',
    'held-on-observed only: inputs outside the generated set and configurations outside the listed ones are not covered',
]


def finish(prop, tier, seed, t0, arms, violations, extra_cov, status_notes, inconclusive_reasons):
    """violations: list of dict(key, count, witnesses[, arm]); prints verdict lines, writes evidence + replays, returns exit code"""
    known = load_known()
    repdir = os.path.join(os.environ.get('VERIF_REPLAY_DIR') or os.path.join(VERIF, 'replays'), prop)
    shutil.rmtree(repdir, ignore_errors=True)
    os.makedirs(repdir, exist_ok=True)
    n_new = 0
    n_known = 0
    lines = []
    vio_summary = []
    merged = {}
    for v in violations:   # the same class may be observed by several arms (value monitor, sanitizer, fuzz)
        m = merged.get(v['key'])
        if m is None:
            merged[v['key']] = dict(v, arm=v.get('arm', 'monitor'))
        else:
            m['count'] = m.get('count', 1) + v.get('count', 1)
            m['arm'] = m['arm'] + '+' + v.get('arm', 'monitor') if v.get('arm', 'monitor') not in m['arm'] else m['arm']
            m['witnesses'] = (m.get('witnesses') or []) + (v.get('witnesses') or [])
            for k, n in (v.get('per_cfg') or {}).items():
                m.setdefault('per_cfg', {})[k] = m.get('per_cfg', {}).get(k, 0) + n
    violations = list(merged.values())
    for i, v in enumerate(sorted(violations, key=lambda v: v['key'])):
        k = match_known(prop, v['key'], known)
        rp = os.path.join(repdir, f'{i:03d}.json')
        rec = {'property': prop, 'key': v['key'], 'count': v.get('count', 1), 'arm': v.get('arm', 'monitor'), 'tier': tier, 'seed': seed,
               'per_cfg': v.get('per_cfg', {}), 'witnesses': v.get('witnesses', []), 'known_finding': bool(k)}
        with open(rp, 'w') as f:
            json.dump(rec, f, indent=1)
        if k:
            n_known += 1
            lines.append(f"KNOWN-FINDING: property={prop} {k.get('what_fails', v['key'])} [key={v['key']} observed={v.get('count', 1)} replay={rp}]")
        else:
            n_new += 1
            lines.append(f"VIOLATION property={prop} replay={rp}")
            w = (v.get('witnesses') or [{}])[0]
            lines.append(f"  key={v['key']} count={v.get('count', 1)} first-witness={json.dumps(w)}")
        vio_summary.append({'key': v['key'], 'count': v.get('count', 1), 'known_finding': bool(k), 'arm': v.get('arm', 'monitor')})
    cov = {'evaluations': 0, 'distinct_nontrivial': 0, 'rule': '', 'samples': []}
    cov.update(extra_cov)
    cov['violation_classes'] = vio_summary
    cov['arms'] = arms
    verdict = 'violated' if n_new else ('inconclusive' if inconclusive_reasons else 'held-on-observed')
    cov['verdict'] = verdict
    if inconclusive_reasons:
        cov['inconclusive_reasons'] = inconclusive_reasons
    if status_notes:
        cov['notes'] = status_notes
    ev = {'property_id': prop, 'tier': tier, 'seed': seed, 'level': 'exploration', 'coverage': cov, 'assumptions': ASSUMPTIONS,
          'wall_s': round(time.time() - t0, 2), 'violations': n_new, 'known_findings_observed': n_known}
    evdir = os.environ.get('VERIF_EVIDENCE_DIR') or os.path.join(VERIF, 'evidence')   # tools that test mutated trees redirect it
    os.makedirs(evdir, exist_ok=True)
    with open(os.path.join(evdir, f'{prop}.json'), 'w') as f:
        json.dump(ev, f, indent=1)
        f.write('\n')
    for l in lines:
        print(l)
    print(f"{prop} {tier} seed={seed}: verdict={verdict} evaluations={cov['evaluations']} distinct_nontrivial={cov['distinct_nontrivial']} "
          f"new_violation_classes={n_new} known_findings={n_known} wall={ev['wall_s']}s")
    if n_new:
        return 1
    if inconclusive_reasons:
        for r in inconclusive_reasons:
            log('INCONCLUSIVE:', r)
        return 2
    return 0


def monitor_cov(res):
    cov = {
        'evaluations': res['evaluations'], 'cases': res['cases'], 'distinct_nontrivial': res['distinct_nontrivial'],
        'rule': res['nontrivial_rule'] + ' | counted as distinct 64-bit hashes of the input tuple, capped per worker thread (2^17 quick, 2^21 thorough) '
                f"({res['nontrivial_uncounted']} further non-trivial cases arrived after the cap and are not counted)",
        'samples': res['samples'], 'strata': res['strata'], 'per_check': res['per_check'], 'check_docs': res['checks'],
        'configurations': res['configs'], 'maxima': res['maxima'], 'signals_caught': res['signals'],
        'exhaustive': False, 'exhaustive_subdomains': res['exhaustive'], 'monitor_wall_s': res['wall_s'],
    }
    return cov


def check_property(prop, tier, seed):
    t0 = time.time()
    import arms as A
    inconcl = []
    notes = []
    violations = []
    arms_used = ['value-monitor']
    cfgs = configs_for(prop, tier)
    env_add = A.pre_monitor_env(prop, tier)
    res = run_monitor(prop, tier, seed, cfgs, env_add=env_add)
    cov = monitor_cov(res)
    for v in res['violations']:
        v['arm'] = 'monitor'
        violations.append(v)
    if res['status'] != 'ok':
        inconcl.append('strata not reached: ' + ', '.join(res['missing_strata']))
    if res['evaluations'] == 0:
        inconcl.append('monitor observed no calls')
    A.extra_arms(prop, tier, seed, cov, violations, inconcl, notes, arms_used, env_add)
    return finish(prop, tier, seed, t0, arms_used, violations, cov, notes, inconcl)


def replay(prop, path):
    with open(path) as f:
        rec = json.load(f)
    # value-monitor and fuzz witnesses carry (check, a, b, c) and are re-judged by the monitor in every configuration
    wit = next((w for w in rec.get('witnesses', []) if 'check' in w and 'a' in w), None)
    if wit is None:
        import arms as A
        return A.replay(prop, rec)
    wit.setdefault('b', 0)
    wit.setdefault('c', 0)
    tier = rec.get('tier', 'quick')
    cfgs = configs_for(prop, tier)
    res = run_monitor(prop, tier, rec.get('seed', 1), cfgs, ['--replay', wit['check'], str(wit['a']), str(wit['b']), str(wit['c'])])
    hit = [v for v in res['violations'] if v['key'] == rec['key']]
    other = [v for v in res['violations'] if v['key'] != rec['key']]
    print(json.dumps({'replayed': wit, 'reproduced': bool(hit), 'violations': res['violations']}, indent=1))
    if hit or other:
        print(f"VIOLATION property={prop} replay={path}")
        return 1
    return 0


def main():
    ap = argparse.ArgumentParser()
    ap.add_argument('prop', nargs='?')
    ap.add_argument('--tier', default=None)
    ap.add_argument('--replay')
    ap.add_argument('--setup', action='store_true')
    a = ap.parse_args()
    seed = int(os.environ.get('VERIF_SEED', '1'))
    tier = a.tier or os.environ.get('VERIF_TIER') or 'quick'
    try:
        if a.setup:
            import arms as A
            build_monitor()
            allc = {}
            for p in ['C01', 'C08', 'C13']:
                for c in configs_for(p, 'quick'):
                    allc[c.name] = c
            build_configs(list(allc.values()))
            A.setup()
            print('setup ok: monitor +', len(allc), 'configurations built for tree', tree_hash())
            return 0
        if not a.prop:
            ap.error('property id required')
        if a.replay:
            return replay(a.prop, a.replay)
        return check_property(a.prop, tier, seed)
    except Inconclusive as e:
        log('INCONCLUSIVE:', e)
        return 2


if __name__ == '__main__':
    # run as the module 'vcheck' so that harness/arms.py shares this module's state and exception classes
    sys.path.insert(0, VERIF)
    import vcheck
    sys.exit(vcheck.main())

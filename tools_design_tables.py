#!/usr/bin/env python3
"""print the markdown tables of DESIGN.md section 8 from seeded/*/meta.json and notes/mutants_result.json"""
import json, glob, os, sys
V = os.path.dirname(os.path.abspath(__file__))


def ab(t, n):
    t = ' '.join(str(t).split()).replace('|', '\\|')
    return t if len(t) <= n else t[:n - 3] + '...'


def seed_table():
    out = ['| seed | needs, to manifest (sub-agent, abridged) | own check (quick): classes, first keys | related checks that also fire | related checks silent |', '|---|---|---|---|---|']
    for d in sorted(glob.glob(os.path.join(V, 'seeded', '*'))):
        m = json.load(open(os.path.join(d, 'meta.json')))
        c = m['confirmed_by_me']
        p = m['property']
        cr = c['check_result'][p]
        rq = m.get('regression_quick')
        classes = rq['own_property_classes'] if rq else cr['violation_classes']
        ex = rq['own_property'] if rq else cr['exit']
        keys = '; '.join(f'`{k}`' for k in cr['first_keys'][:2])
        out.append(f"| {os.path.basename(d)} | {ab(m.get('needs_to_manifest', ''), 200)} | exit {ex}, {classes} classes: {ab(keys, 170)} | {', '.join(m.get('also_caught_by', [])) or '-'} | {', '.join(m.get('related_checks_silent', [])) or '-'} |")
    return '\n'.join(out)


def history_table():
    out = ['| seed | detection history |', '|---|---|']
    for d in sorted(glob.glob(os.path.join(V, "seeded", "*-[345678]")) + glob.glob(os.path.join(V, "seeded", "*-[micpx][1-5]"))):
        m = json.load(open(os.path.join(d, 'meta.json')))
        if (d[-1] in '678' or d[-2] in 'micpx') and m.get('detection_history', '').startswith('caught as first run'):
            continue   # round 6: only the three that were not caught as first run are listed
        out.append(f"| {os.path.basename(d)} | {ab(m.get('detection_history', ''), 900)} |")
    return '\n'.join(out)


def benign_table():
    out = ['| change | what (sub-agent, abridged) | observable difference | quick checks run, result |', '|---|---|---|---|']
    for d in sorted(glob.glob(os.path.join(V, 'benign', '*'))):
        m = json.load(open(os.path.join(d, 'meta.json')))
        r = (m.get('checked_by_me') or {}).get('result') or {}
        exp = m.get('expected_alarms', {})
        checks = [k for k in r if k != 'tests']
        bad = [f"{k}: exit {r[k]['exit']}" + (' (expected, see meta.json)' if k in exp else '') for k in checks if r[k]['exit'] != 0]
        res = ', '.join(checks) + (': all exit 0' if not bad else ': ' + '; '.join(bad) + '; others exit 0')
        out.append(f"| {os.path.basename(d)} | {ab(m.get('summary', ''), 170)} | {ab(m.get('observable_difference', ''), 170)} | {res} |")
    return '\n'.join(out)


def thorough_table(evdir):
    out = ['| property | verdict | configurations | judged library calls | distinct non-trivial inputs (capped) | arms | wall (s, machine shared with other jobs) |', '|---|---|---|---|---|---|---|']
    for f in sorted(glob.glob(os.path.join(evdir, 'C??.json'))):
        e = json.load(open(f))
        c = e['coverage']
        v = c.get('verdict', '?') + (f" + {e['known_findings_observed']} known finding(s)" if e.get('known_findings_observed') else '')
        out.append(f"| {e['property_id']} | {v} | {len(c.get('configurations', []))} | {c['evaluations']:.3e} | {c['distinct_nontrivial']} | {', '.join(c.get('arms', []))} | {e['wall_s']} |")
    return '\n'.join(out)


def mutant_table():
    mr = os.path.join(V, 'notes', 'mutants_result.json')
    out = ['| mutant | targets | outcome |', '|---|---|---|']
    for r in json.load(open(mr)):
        det = ', '.join(f"{p}: exit {v['exit']} ({v['n_keys']} classes)" for p, v in r.get('checks', {}).items())
        out.append(f"| {r['id']} | {','.join(r['targets'])} | {r['status']}{' - ' + det if det else ''} |")
    return '\n'.join(out)


def update_design():
    """replace the four generated tables of DESIGN.md section 8 in place (each is found by its header row)"""
    p = os.path.join(V, 'DESIGN.md')
    lines = open(p).read().split('\n')
    for table in (seed_table(), history_table(), benign_table(), mutant_table()):
        t = table.split('\n')
        try:
            i = lines.index(t[0])
        except ValueError:
            print('header not found:', t[0][:60])
            continue
        j = i
        while j < len(lines) and lines[j].startswith('|'):
            j += 1
        lines[i:j] = t
    open(p, 'w').write('\n'.join(lines))


if __name__ == '__main__':
    if len(sys.argv) > 1 and sys.argv[1] == '--update':
        update_design()
        sys.exit(0)
    which = sys.argv[1] if len(sys.argv) > 1 else 'all'
    if which in ('all', 'seeds'):
        print(seed_table() + '\n')
    if which in ('all', 'history'):
        print(history_table() + '\n')
    if which == 'thorough':
        print(thorough_table(sys.argv[2]))
    if which in ('all', 'benign'):
        print(benign_table() + '\n')
    if which in ('all', 'mutants'):
        print(mutant_table())

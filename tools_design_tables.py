#!/usr/bin/env python3
"""print the markdown tables of DESIGN.md section 8 from seeded/*/meta.json and notes/mutants_result.json"""
import json, glob, os, sys
V = os.path.dirname(os.path.abspath(__file__))


def ab(t, n):
    t = ' '.join(str(t).split()).replace('|', '\\|')
    return t if len(t) <= n else t[:n - 3] + '...'


def seed_table():
    out = ['| seed | needs, to manifest (sub-agent, abridged) | own check (quick): classes, first keys | related checks that also fire | related checks silent |', '|---|---|---|---|---|']
    for d in sorted(glob.glob(os.path.join(V, 'seeded', '*'))):
        m = json.load(open(os.path.join(d, 'meta.json')))
        c = m['confirmed_by_me']
        p = m['property']
        cr = c['check_result'][p]
        rq = m.get('regression_quick')
        classes = rq['own_property_classes'] if rq else cr['violation_classes']
        ex = rq['own_property'] if rq else cr['exit']
        keys = '; '.join(f'`{k}`' for k in cr['first_keys'][:2])
        out.append(f"| {os.path.basename(d)} | {ab(m.get('needs_to_manifest', ''), 200)} | exit {ex}, {classes} classes: {ab(keys, 170)} | {', '.join(m.get('also_caught_by', [])) or '-'} | {', '.join(m.get('related_checks_silent', [])) or '-'} |")
    return '\n'.join(out)


def history_table():
    out = ['| seed | detection history |', '|---|---|']
    for d in sorted(glob.glob(os.path.join(V, "seeded", "*-[345]"))):
        m = json.load(open(os.path.join(d, 'meta.json')))
        out.append(f"| {os.path.basename(d)} | {ab(m.get('detection_history', ''), 900)} |")
    return '\n'.join(out)


def mutant_table():
    mr = os.path.join(V, 'notes', 'mutants_result.json')
    out = ['| mutant | targets | outcome |', '|---|---|---|']
    for r in json.load(open(mr)):
        det = ', '.join(f"{p}: exit {v['exit']} ({v['n_keys']} classes)" for p, v in r.get('checks', {}).items())
        out.append(f"| {r['id']} | {','.join(r['targets'])} | {r['status']}{' - ' + det if det else ''} |")
    return '\n'.join(out)


if __name__ == '__main__':
    which = sys.argv[1] if len(sys.argv) > 1 else 'all'
    if which in ('all', 'seeds'):
        print(seed_table() + '\n')
    if which in ('all', 'history'):
        print(history_table() + '\n')
    if which in ('all', 'mutants'):
        print(mutant_table())

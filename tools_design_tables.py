#!/usr/bin/env python3
"""print the markdown tables of DESIGN.md section 8 from seeded/*/meta.json and notes/mutants_result.json"""
import json, glob, os
V = os.path.dirname(os.path.abspath(__file__))
print('| seed | what was changed (sub-agent summary, abridged) | needs | caught by (quick check) | first violation keys |')
print('|---|---|---|---|---|')
for d in sorted(glob.glob(os.path.join(V, 'seeded', '*'))):
    m = json.load(open(os.path.join(d, 'meta.json')))
    c = m['confirmed_by_me']
    cr = c['check_result']
    caught = ', '.join(f"{k} (exit {v['exit']}, {v['violation_classes']} classes)" for k, v in cr.items())
    keys = '; '.join(f'`{k}`' for v in cr.values() for k in v['first_keys'][:2])
    extra = m.get('also_caught_by')
    if extra:
        caught += '; also ' + ', '.join(extra)
    def ab(t, n):
        t = ' '.join(str(t).split()).replace('|', '\\|')
        return t if len(t) <= n else t[:n - 3] + '...'
    print(f"| {os.path.basename(d)} | {ab(m.get('summary',''), 230)} | {ab(m.get('needs_to_manifest',''), 170)} | {caught} | {ab(keys, 200)} |")
print()
mr = os.path.join(V, 'notes', 'mutants_result.json')
if os.path.exists(mr):
    print('| mutant | targets | outcome |')
    print('|---|---|---|')
    for r in json.load(open(mr)):
        det = ', '.join(f"{p}: exit {v['exit']} ({v['n_keys']} classes)" for p, v in r.get('checks', {}).items())
        print(f"| {r['id']} | {','.join(r['targets'])} | {r['status']}{' - ' + det if det else ''} |")

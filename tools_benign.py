#!/usr/bin/env python3
"""False-alarm test: apply each property-preserving change under /verif/benign/<id>/ to /repo, run the quick check of its
property and of the related properties, restore /repo. Every check must exit 0.   tools_benign.py [--only C01-1,...]"""
import json, os, glob, subprocess, sys, re, argparse, shutil
V = os.path.dirname(os.path.abspath(__file__))
REL = {'C04': ['C16', 'C08', 'C07'], 'C06': ['C08', 'C07', 'C01'], 'C07': ['C02', 'C19', 'C08', 'C17'], 'C08': ['C13', 'C12', 'C14', 'C07'], 'C15': ['C08', 'C07'], 'C17': ['C01', 'C02', 'C16', 'C08', 'C07'],
       'C18': ['C08', 'C07', 'C03'], 'C20': ['C08', 'C07', 'C09'], 'C01': ['C16', 'C17', 'C07', 'C08'], 'C02': ['C16', 'C17', 'C08', 'C07'], 'C03': ['C16', 'C17', 'C07', 'C08', 'C11'], 'C05': ['C16', 'C08', 'C07', 'C13'],
       'C09': ['C20', 'C08', 'C07'], 'C10': ['C20', 'C08', 'C07'], 'C11': ['C08', 'C07'], 'C12': ['C08', 'C07'], 'C13': ['C12', 'C14', 'C08', 'C07'],
       'C14': ['C08', 'C07'], 'C16': ['C01', 'C02', 'C17', 'C08', 'C07'], 'C19': ['C07', 'C08']}


def sh(cmd):
    return subprocess.run(cmd, capture_output=True, text=True)


def main():
    ap = argparse.ArgumentParser()
    ap.add_argument('--only')
    ap.add_argument('--props', help='run only these checks (comma separated) instead of the property + related ones; meta.json is not rewritten')
    a = ap.parse_args()
    WT = f'/tmp/verif_benign_wt_{os.getpid()}'   # private worktree of /repo HEAD (regression use; does not block /repo)
    sh(['git', '-C', '/repo', 'worktree', 'remove', '--force', WT])
    if sh(['git', '-C', '/repo', 'worktree', 'add', '--detach', WT, 'HEAD']).returncode != 0:
        print('cannot create worktree')
        return 2
    os.environ['VERIF_REPO'] = WT
    os.environ['VERIF_EVIDENCE_DIR'] = f'/tmp/verif_benign_evidence_{os.getpid()}'
    os.environ['VERIF_REPLAY_DIR'] = f'/tmp/verif_benign_replays_{os.getpid()}'
    bad = 0
    for d in sorted(glob.glob(os.path.join(V, 'benign', '*'))):
        sid = os.path.basename(d)
        if a.only and sid not in a.only.split(','):
            continue
        p = sid.split('-')[0]
        if sh(['git', '-C', WT, 'apply', os.path.join(d, 'patch.diff')]).returncode != 0:
            print(sid, 'patch does not apply')
            continue
        res = {}
        # a change written against one property may break another one: such alarms are listed in meta.json (expected_alarms) after
        # the witness has been confirmed against the other property's statement; they must then fire
        expected = json.load(open(os.path.join(d, 'meta.json'))).get('expected_alarms', {})
        try:
            res['tests'] = 'skipped' if a.props else sh([os.path.join(V, 'baseline_off.sh')]).returncode
            for q in ([p if x == 'own' else x for x in a.props.split(',')] if a.props else [p] + REL.get(p, [])):
                c = sh(['python3', os.path.join(V, 'vcheck.py'), q, '--tier', 'quick'])
                keys = re.findall(r'^  key=(.*?) count=', c.stdout, re.M)
                res[q] = {'exit': c.returncode, 'keys': keys[:4]}
                if c.returncode == 2:
                    res[q]['stderr'] = c.stderr[-600:]
                if c.returncode != 0 and q not in expected:
                    bad += 1
        finally:
            sh(['git', '-C', WT, 'checkout', '--', '.'])
        print(sid, 'tests', res['tests'], {k: v['exit'] for k, v in res.items() if k != 'tests'}, flush=True)
        if a.props:
            continue
        m = json.load(open(os.path.join(d, 'meta.json')))
        m['checked_by_me'] = {'ran': 'tools_benign.py: git -C /repo apply; baseline_off.sh; quick checks of the property and related ones; git checkout', 'result': res,
                              'all_checks_silent': all(v['exit'] == 0 for k, v in res.items() if k != 'tests' and k not in expected),
                              'expected_alarms_fired': all(res.get(k, {}).get('exit') == 1 for k in expected)}
        json.dump(m, open(os.path.join(d, 'meta.json'), 'w'), indent=1)
    sh(['git', '-C', '/repo', 'worktree', 'remove', '--force', WT])
    for k in ('VERIF_EVIDENCE_DIR', 'VERIF_REPLAY_DIR'):
        shutil.rmtree(os.environ[k], ignore_errors=True)
    print('checks that alarmed:', bad)
    return 1 if bad else 0


if __name__ == '__main__':
    sys.exit(main())

#!/usr/bin/env python3
"""Run checks against a seeded change.

  tools_seedtest.py <dir-with-patch.diff> [--props C01,C08] [--tier quick] [--no-demo] [--no-tests]

Applies <dir>/patch.diff to /repo (git apply), optionally confirms that the repository's own test suite still
passes and that <dir>/demo.cc fails with / passes without the change, runs the listed checks, and ALWAYS restores
/repo (git checkout -- .) afterwards. Prints one summary line per check and writes <dir>/result.json.
"""
import sys, os, json, subprocess, argparse, re, tempfile, shutil

REPO = '/repo'
VERIF = os.path.dirname(os.path.abspath(__file__))


def sh(cmd, **kw):
    return subprocess.run(cmd, shell=isinstance(cmd, str), capture_output=True, text=True, **kw)


def demo_cmd(d):
    src = open(os.path.join(d, 'demo.cc')).read()
    meta = {}
    try:
        meta = json.load(open(os.path.join(d, 'meta.json')))
    except Exception:
        pass
    cmd = meta.get('compile_cmd') or ''
    m = re.search(r'((?:g\+\+|clang\+\+)[^\n]*demo\.cc[^\n]*)', cmd) or re.search(r'((?:g\+\+|clang\+\+)[^\n]*demo\.cc[^\n]*)', src)
    return m.group(1).strip() if m else 'g++ -std=c++17 -O2 -I fixed_lib/include demo.cc fixed_lib/src/fixed_math.cc -o demo'


def run_demo(d, tag):
    """compile + run the demonstration against /repo's current working tree"""
    w = tempfile.mkdtemp(prefix='seeddemo_')
    try:
        shutil.copy(os.path.join(d, 'demo.cc'), w)
        cmd = demo_cmd(d)
        cmd = re.sub(r'-I\s*(\S*fixed_lib/include)', f'-I {REPO}/fixed_lib/include', cmd)
        cmd = re.sub(r'(?<![\w/])(\S*fixed_lib/src/fixed_math\.cc)', f'{REPO}/fixed_lib/src/fixed_math.cc', cmd)
        cmd = re.sub(r'-o\s+\S+', '-o demo', cmd)
        if '-o demo' not in cmd:
            cmd += ' -o demo'
        cmd = re.split(r'\s{2,}|\s\(|;', cmd.split('&&')[0].strip())[0].rstrip('*/ ').strip()
        r = sh(cmd, cwd=w)
        if r.returncode != 0:
            return {'tag': tag, 'compile_failed': True, 'cmd': cmd, 'stderr': r.stderr[-600:]}
        try:
            r2 = sh(['./demo'], cwd=w, timeout=300)
            rc = r2.returncode
            out = (r2.stdout + r2.stderr)[-400:]
        except subprocess.TimeoutExpired:
            rc, out = 'timeout', ''
        return {'tag': tag, 'cmd': cmd, 'exit': rc, 'output': out}
    finally:
        shutil.rmtree(w, ignore_errors=True)


def main():
    ap = argparse.ArgumentParser()
    ap.add_argument('dir')
    ap.add_argument('--props', default=None)
    ap.add_argument('--tier', default='quick')
    ap.add_argument('--no-demo', action='store_true')
    ap.add_argument('--no-tests', action='store_true')
    a = ap.parse_args()
    d = os.path.abspath(a.dir)
    patch = os.path.join(d, 'patch.diff')
    meta = {}
    if os.path.exists(os.path.join(d, 'meta.json')):
        meta = json.load(open(os.path.join(d, 'meta.json')))
    props = a.props.split(',') if a.props else [meta.get('property') or meta.get('breaks_property')]
    if sh(['git', '-C', REPO, 'status', '--porcelain', '--untracked-files=no']).stdout.strip():
        print('refusing: /repo has uncommitted changes to tracked files')
        return 2
    res = {'dir': d, 'props': props, 'tier': a.tier}
    if not a.no_demo and os.path.exists(os.path.join(d, 'demo.cc')):
        res['demo_without_change'] = run_demo(d, 'clean')
    r = sh(['git', '-C', REPO, 'apply', patch])
    if r.returncode != 0:
        print('patch does not apply:', r.stderr)
        return 2
    try:
        if not a.no_tests:
            t = sh([os.path.join(VERIF, 'baseline_off.sh')])
            res['tests_with_change'] = {'exit': t.returncode, 'tail': t.stdout.strip().splitlines()[-3:]}
        if not a.no_demo and os.path.exists(os.path.join(d, 'demo.cc')):
            res['demo_with_change'] = run_demo(d, 'patched')
        res['checks'] = {}
        for p in props:
            c = sh(['python3', os.path.join(VERIF, 'vcheck.py'), p, '--tier', a.tier])
            keys = re.findall(r'^  key=(\S+(?: [^c][^ ]*)*?) count=', c.stdout, re.M)
            res['checks'][p] = {'exit': c.returncode, 'violation_keys': keys[:40], 'n_keys': len(keys), 'summary': c.stdout.strip().splitlines()[-1:] , 'stderr': c.stderr[-300:]}
    finally:
        sh(['git', '-C', REPO, 'checkout', '--', '.'])
    # the check rewrites evidence/replays for the mutated tree: restore the committed evidence
    sh(['git', '-C', VERIF, 'checkout', '--', 'evidence'])
    json.dump(res, open(os.path.join(d, 'result.json'), 'w'), indent=1)
    print(json.dumps(res, indent=1)[:6000])
    return 0


if __name__ == '__main__':
    sys.exit(main())

// Forced constant-evaluation paths (configuration "<...>-ce").
// Constant evaluation differs from run-time evaluation only where code asks std::is_constant_evaluated() /
// __builtin_is_constant_evaluated(). This prefix header (passed with -include) makes both answer `true` in the
// translation unit of the wrappers, so the branch the constant evaluator would take is EXECUTED at run time and is
// judged by the ordinary value monitors of every property (every oracle, every generator), not only compared on a
// few sample points by the constant-evaluator arm.
#pragma once
#include <type_traits>
constexpr bool verif_force_ce_true() noexcept { return true; }
namespace std { constexpr bool verif_force_ce_std() noexcept { return true; } }
#define is_constant_evaluated verif_force_ce_std
#define __builtin_is_constant_evaluated verif_force_ce_true

"""Additional observation arms: sanitizer driver (C07 + corroboration), constant-evaluator (C08), reach (gcov)."""


def setup():
    pass


def extra_arms(prop, tier, seed, cov, violations, inconcl, notes, arms_used):
    pass


def replay(prop, rec):
    return 2

"""Additional observation arms.

  sanitizer arm   (C07)  wrappers.cc + fixed_math.cc built with ASan+UBSan (report build) or trapping UBSan
                         (trap build, thorough), driven by san_main.cc: one forked child per entry point.
  consteval arm   (C08, second witness for C07)  generated static_assert translation units: the compilers'
                         constant evaluators execute the library code and reject every undefined operation.
  reach arm       (thorough)  gcov line counts of the anchored source files under the property's workload.
"""
import os, re, json, subprocess, time, shutil, glob, struct
from concurrent.futures import ThreadPoolExecutor
import vcheck as V

ASAN_OPTS = 'handle_segv=0:handle_sigfpe=0:handle_sigill=0:handle_abort=0:allow_user_segv_handler=1:detect_leaks=0:halt_on_error=0'


# ------------------------------------------------------------------------------------------------ sanitizer arm
class SanBuild:
    def __init__(self, compiler, mode, opt):
        self.compiler, self.mode, self.opt = compiler, mode, opt
        cc = 'gcc' if compiler == 'g++' else 'clang'
        self.name = f'{cc}-{mode}{opt}'

    def flags(self):
        # the clang builds use the GNU dialect (same UB rules; __int128 operands and !__STRICT_ANSI__ code exist only there)
        f = ['-std=gnu++17' if self.compiler == 'clang++' else '-std=c++17', self.opt, '-g', '-fno-omit-frame-pointer', '-w', f'-D{V.HOOK_DEFINE}=1', '-DVERIF_SINIT_LAZY=1', f'-I{V.LIB_INC}']
        if self.mode == 'report':
            f += ['-fsanitize=address,undefined,float-cast-overflow', '-fsanitize-recover=address,undefined,float-cast-overflow']
        else:
            f += ['-fsanitize=undefined,float-cast-overflow']
            f += ['-fsanitize-undefined-trap-on-error'] if self.compiler == 'g++' else ['-fsanitize-trap=undefined,float-cast-overflow']
        if self.compiler == 'clang++':
            f += ['-fno-sanitize=object-size']
        return f


def san_builds(tier):
    b = [SanBuild('g++', 'report', '-O1'), SanBuild('clang++', 'report', '-O1')]
    if tier == 'thorough':
        b += [SanBuild(c, 'trap', o) for c in ('g++', 'clang++') for o in ('-O0', '-O2')]
    return b


def build_san(sb):
    d = os.path.join(V.CACHE, 'obj', V.tree_hash())
    os.makedirs(d, exist_ok=True)
    srcs = [os.path.join(V.HARNESS, 'wrappers.cc'), V.LIB_SRC, os.path.join(V.HARNESS, 'san_main.cc'), os.path.join(V.HARNESS, 'monitor', 'gen.cc')]
    hk = V.file_hash([srcs[0], srcs[2], srcs[3], os.path.join(V.HARNESS, 'monitor', 'core.h'), os.path.join(V.HARNESS, 'monitor', 'gen.h')])
    key = V.sha(hk, V.compiler_version(sb.compiler), ' '.join(sb.flags()))[:16]
    exe = os.path.join(d, f'san-{sb.name}-{key}')
    if os.path.exists(exe):
        return exe

    def comp(i):
        o = f'{exe}.{i}.o'
        fl = sb.flags() if i < 2 else ['-std=c++17', '-O1', '-g', '-w']  # driver + generators are not instrumented code under test
        if i >= 2 and sb.mode == 'report':
            fl = fl + ['-fsanitize=address']
        if i >= 2 and sb.mode == 'trap':
            fl = fl + ['-DVERIF_SAN_TRAP=1']  # lets san_main.cc see __SANITIZE_ADDRESS__ / define __asan_on_error
        r = V.run([sb.compiler] + fl + [f'-DVERIF_CFG="{sb.name}"', '-c', srcs[i], '-o', o])
        if r.returncode != 0:
            raise V.Inconclusive(f'sanitizer build {sb.name} failed: {srcs[i]}\n{r.stderr[-3000:]}')
        return o
    with ThreadPoolExecutor(4) as ex:
        objs = list(ex.map(comp, range(4)))
    link = [sb.compiler] + [f for f in sb.flags() if f.startswith('-fsanitize')] + objs + ['-o', exe + '.tmp']
    r = V.run(link)
    if r.returncode != 0:
        raise V.Inconclusive(f'sanitizer link {sb.name} failed\n{r.stderr[-3000:]}')
    os.replace(exe + '.tmp', exe)
    for o in objs:
        os.unlink(o)
    return exe


_src_cache = {}


def source_text(fname, line):
    """whitespace-normalised text of the reported source line (keys must survive unrelated edits above the site)"""
    if fname not in _src_cache:
        cands = glob.glob(os.path.join(V.REPO, 'fixed_lib', '**', fname), recursive=True)
        _src_cache[fname] = open(cands[0], errors='replace').read().splitlines() if cands else []
    l = _src_cache[fname]
    if 0 < line <= len(l):
        return ' '.join(l[line - 1].split())
    return f'line {line}'


def run_san(sb, exe, seed, ncalls, nworkers=V.NCPU, only=None):
    env = dict(os.environ, ASAN_OPTIONS=ASAN_OPTS, UBSAN_OPTIONS='print_stacktrace=0')
    watchdog = int(os.environ.get('VERIF_WATCHDOG_S', '1800'))

    def worker(w):
        cmd = [exe, str(w), str(nworkers), str(seed), str(ncalls), sb.mode] + ([only] if only else [])
        try:
            r = subprocess.run(cmd, capture_output=True, text=True, env=env, timeout=watchdog)
        except subprocess.TimeoutExpired:
            raise V.Inconclusive(f'sanitizer worker {w} of {sb.name} hit the watchdog')
        if r.returncode != 0:
            raise V.Inconclusive(f'sanitizer driver {sb.name} worker {w} exited {r.returncode}: {r.stderr[-500:]}')
        return r.stdout
    with ThreadPoolExecutor(nworkers) as ex:
        outs = list(ex.map(worker, range(1 if only else nworkers)))
    events, summaries, nodomain, died = [], {}, [], []
    for o in outs:
        for line in o.splitlines():
            kv = dict(p.split('=', 1) for p in line.split()[1:] if '=' in p) if not line.startswith('CFG') else {}
            if line.startswith('EV '):
                kv['type'] = line.split()[1]
                events.append(kv)
            elif line.startswith('SUMMARY'):
                summaries[kv['entry']] = kv
            elif line.startswith('NODOMAIN'):
                nodomain.append(kv['entry'])
            elif line.startswith('DIED'):
                died.append(kv)
    return events, summaries, nodomain, died


def san_arm(prop, tier, seed, cov, violations, inconcl, notes, arms_used):
    arms_used.append('sanitizer-driver')
    builds = san_builds(tier)
    with ThreadPoolExecutor(len(builds)) as ex:
        exes = list(ex.map(build_san, builds))
    ncalls = int((200000 if tier == 'quick' else 3000000) * float(os.environ.get('VERIF_SCALE', '1')))
    classes = {}
    san_cov = {}
    total_calls = 0
    for sb, exe in zip(builds, exes):
        events, summaries, nodomain, died = run_san(sb, exe, seed, ncalls)
        if nodomain:
            inconcl.append(f'{sb.name}: wrapper entries without an argument domain: {nodomain}')
        if not summaries:
            inconcl.append(f'{sb.name}: sanitizer driver reported no entry point')
        zero = [e for e, s in summaries.items() if int(s['calls']) == 0]
        if zero:
            inconcl.append(f'{sb.name}: entry points with zero calls: {zero}')
        calls = sum(int(s['calls']) for s in summaries.values())
        total_calls += calls
        dirty = set()
        for ev in events:
            e = ev['entry']
            dirty.add(e)
            if ev['type'] == 'ubsan':
                key = f"san/{e}/{ev['kind']}@{ev['file']}:{source_text(ev['file'], int(ev['line']))}"
            elif ev['type'] == 'asan':
                key = f"san/{e}/asan-{ev.get('desc', '?')}"
            else:
                key = f"san/{e}/signal-{ev['sig']}" + ('-trap-build' if sb.mode == 'trap' else '')
            c = classes.setdefault(key, {'key': key, 'count': 0, 'per_cfg': {}, 'witnesses': [], 'arm': 'sanitizer'})
            n = 1
            if ev['type'] == 'signal':
                n = 0  # counted from the SUMMARY line below
            c['count'] += n
            c['per_cfg'][sb.name] = c['per_cfg'].get(sb.name, 0) + max(n, 1)
            if len(c['witnesses']) < 4:
                c['witnesses'].append({'build': sb.name, 'entry': e, 'a': int(ev['a']), 'b': int(ev['b']), 'event': ev['type'],
                                       'detail': ev.get('kind') or ev.get('sig') or ev.get('desc'), 'site': f"{ev.get('file', '')}:{ev.get('line', '')}"})
        for e, s in summaries.items():
            if int(s['signals']):
                for key, c in classes.items():
                    if key.startswith(f'san/{e}/signal-') and sb.name in c['per_cfg']:
                        c['count'] += int(s['signals'])
        for dd in died:
            key = f"san/{dd['entry']}/child-died"
            classes.setdefault(key, {'key': key, 'count': 1, 'per_cfg': {sb.name: 1}, 'witnesses': [{'build': sb.name, 'entry': dd['entry'], 'status': dd['status']}], 'arm': 'sanitizer'})
        clean = sorted(set(summaries) - dirty)
        san_cov[sb.name] = {'mode': sb.mode, 'flags': ' '.join(f for f in sb.flags() if f.startswith('-f') or f.startswith('-O') or f.startswith('-std')),
                            'entry_points': len(summaries), 'calls': calls, 'ubsan_reports': sum(int(s['ubsan']) for s in summaries.values()),
                            'asan_reports': sum(int(s['asan']) for s in summaries.values()), 'signals': sum(int(s['signals']) for s in summaries.values()),
                            'clean_entry_points': len(clean), 'entry_points_with_events': sorted(dirty),
                            'calls_per_entry_min': min((int(s['calls']) for s in summaries.values()), default=0),
                            'domains': sorted(set(s['domain'] for s in summaries.values()))}
    for c in classes.values():
        if c['count'] == 0:
            c['count'] = 1
        violations.append(c)
    cov['sanitizer'] = san_cov
    cov['evaluations'] += total_calls
    cov['rule'] += ' | sanitizer arm: every entry point driven over the cross product of its boundary values plus random arguments in each instrumented build (calls counted per entry point; not added to distinct_nontrivial)'



# ------------------------------------------------------------------------------------------------ concurrency arm (TSan)
def tsan_builds(tier):
    b = [('g++', 'gnu++17', '-O1')]
    if tier == 'thorough':
        b += [('clang++', 'c++20', '-O2')]
    return b


def tsan_name(tb):
    return f"{'gcc' if tb[0] == 'g++' else 'clang'}-tsan{tb[2]}-{tb[1]}"


def tsan_flags(tb):
    return [f'-std={tb[1]}', tb[2], '-g', '-fno-omit-frame-pointer', '-w', '-fsanitize=thread', '-fPIE', f'-D{V.HOOK_DEFINE}=1', f'-I{V.LIB_INC}']


def build_tsan(tb):
    d = os.path.join(V.CACHE, 'obj', V.tree_hash())
    os.makedirs(d, exist_ok=True)
    srcs = [os.path.join(V.HARNESS, 'wrappers.cc'), V.LIB_SRC, os.path.join(V.HARNESS, 'tsan_main.cc'), os.path.join(V.HARNESS, 'monitor', 'gen.cc')]
    hk = V.file_hash([srcs[0], srcs[2], srcs[3], os.path.join(V.HARNESS, 'monitor', 'core.h'), os.path.join(V.HARNESS, 'monitor', 'gen.h')])
    key = V.sha(hk, V.compiler_version(tb[0]), ' '.join(tsan_flags(tb)))[:16]
    exe = os.path.join(d, f'tsan-{tsan_name(tb)}-{key}')
    if os.path.exists(exe):
        return exe

    def comp(i):
        o = f'{exe}.{i}.o'
        fl = tsan_flags(tb) if i < 2 else ['-std=c++17', '-O1', '-g', '-w', '-fsanitize=thread', '-fPIE']
        r = V.run([tb[0]] + fl + [f'-DVERIF_CFG="{tsan_name(tb)}"', '-c', srcs[i], '-o', o])
        if r.returncode != 0:
            raise V.Inconclusive(f'thread-sanitizer build {tsan_name(tb)} failed: {srcs[i]}\n{r.stderr[-3000:]}')
        return o
    with ThreadPoolExecutor(4) as ex:
        objs = list(ex.map(comp, range(4)))
    r = V.run([tb[0], '-fsanitize=thread', '-pie'] + objs + ['-lpthread', '-o', exe + '.tmp'])
    if r.returncode != 0:
        raise V.Inconclusive(f'thread-sanitizer link {tsan_name(tb)} failed\n{r.stderr[-3000:]}')
    os.replace(exe + '.tmp', exe)
    for o in objs:
        os.unlink(o)
    return exe


def parse_tsan_reports(err):
    """report blocks of the ThreadSanitizer runtime -> list of {kind, entry, where}"""
    out = []
    for blk in err.split('=================='):
        m = re.search(r'WARNING: ThreadSanitizer: ([^\n(]+)', blk)
        if not m:
            continue
        kind = '-'.join(m.group(1).split())
        em = re.search(r'\bw_(\w+)', blk)
        loc = re.search(r"Location is global '([^']+)'", blk)
        sm = re.search(r'SUMMARY: ThreadSanitizer: [^\n]*? in ([^\n]+)', blk)
        where = f"global {loc.group(1)}" if loc else (sm.group(1).strip() if sm else '?')
        where = re.sub(r'\(.*', '', where).strip()
        out.append({'kind': kind, 'entry': em.group(1) if em else '?', 'where': where, 'text': blk.strip()[:1500]})
    return out


def tsan_arm(prop, tier, seed, cov, violations, inconcl, notes, arms_used):
    arms_used.append('thread-sanitizer-driver')
    builds = tsan_builds(tier)
    with ThreadPoolExecutor(len(builds)) as ex:
        exes = list(ex.map(build_tsan, builds))
    sc = float(os.environ.get('VERIF_SCALE', '1'))
    nshared = int((8000 if tier == 'quick' else 60000) * sc)
    nprivate = nshared // 4
    threads = 8
    watchdog = int(os.environ.get('VERIF_WATCHDOG_S', '1800'))
    classes = {}
    tcov = {}
    total = 0
    for tb, exe in zip(builds, exes):
        name = tsan_name(tb)
        env = dict(os.environ, TSAN_OPTIONS='halt_on_error=0:report_signal_unsafe=0:exitcode=0:history_size=2')
        try:
            r = subprocess.run([exe, str(threads), str(seed), str(nshared), str(nprivate)], capture_output=True, text=True, env=env, timeout=watchdog)
        except subprocess.TimeoutExpired:
            inconcl.append(f'thread-sanitizer driver {name} hit the watchdog')
            continue
        summaries, differs, nodomain = {}, [], []
        tot = None
        for line in r.stdout.splitlines():
            kv = dict(p.split('=', 1) for p in line.split()[1:] if '=' in p) if not line.startswith('CFG') else {}
            if line.startswith('SUMMARY'):
                summaries[kv['entry']] = kv
            elif line.startswith('EV differs'):
                differs.append(kv)
            elif line.startswith('NODOMAIN'):
                nodomain.append(kv['entry'])
            elif line.startswith('TOTAL'):
                tot = kv
        reports = parse_tsan_reports(r.stderr)
        if tot is None:
            # the process died inside an entry point (signal) or the runtime refused to start: the last entry announced tells where
            last = list(summaries)[-1] if summaries else None
            if 'FATAL: ThreadSanitizer' in r.stderr and not summaries:
                inconcl.append(f'thread-sanitizer runtime could not start for {name}: {r.stderr[-300:]}')
                continue
            key = f'tsan/process-died/exit={r.returncode}'
            classes.setdefault(key, {'key': key, 'count': 1, 'per_cfg': {name: 1}, 'witnesses': [{'build': name, 'after_entry': last, 'stderr': r.stderr[-600:]}], 'arm': 'thread-sanitizer'})
        if nodomain:
            inconcl.append(f'{name}: wrapper entries without an argument domain: {nodomain}')
        for ev in differs:
            key = f"tsan/{ev['entry']}/result-depends-on-concurrent-calls"
            c = classes.setdefault(key, {'key': key, 'count': 0, 'per_cfg': {}, 'witnesses': [], 'arm': 'thread-sanitizer'})
            c['count'] += 1
            c['per_cfg'][name] = c['per_cfg'].get(name, 0) + 1
            if len(c['witnesses']) < 4:
                c['witnesses'].append({'build': name, 'entry': ev['entry'], 'a': int(ev['a']), 'b': int(ev['b']), 'reference': int(ev['reference']), 'concurrent': int(ev['concurrent'])})
        for rp in reports:
            key = f"tsan/{rp['entry']}/{rp['kind']}@{rp['where']}"
            c = classes.setdefault(key, {'key': key, 'count': 0, 'per_cfg': {}, 'witnesses': [], 'arm': 'thread-sanitizer'})
            c['count'] += 1
            c['per_cfg'][name] = c['per_cfg'].get(name, 0) + 1
            if len(c['witnesses']) < 2:
                c['witnesses'].append({'build': name, 'entry': rp['entry'], 'report': rp['text']})
        calls = sum(int(s['calls']) for s in summaries.values())
        total += calls
        tcov[name] = {'flags': ' '.join(f for f in tsan_flags(tb) if f.startswith('-f') or f.startswith('-O') or f.startswith('-std')), 'threads': threads,
                      'entry_points': len(summaries), 'calls': calls, 'calls_made_while_other_threads_were_in_the_same_entry_point': sum(int(s['concurrent_calls']) for s in summaries.values()),
                      'results_compared_with_single_threaded_reference': sum(int(s['compared']) for s in summaries.values()),
                      'results_that_differed': sum(int(s['differs']) for s in summaries.values()), 'race_reports': len(reports),
                      'calls_per_entry_min': min((int(s['calls']) for s in summaries.values()), default=0)}
        if not summaries:
            inconcl.append(f'{name}: thread-sanitizer driver reported no entry point')
    for c in classes.values():
        violations.append(c)
    cov['thread_sanitizer'] = tcov
    cov['evaluations'] += total
    cov['rule'] += ' | concurrency arm: every entry point called by 8 threads at the same time under ThreadSanitizer (shared and private arguments), results compared with a single-threaded reference'

# ------------------------------------------------------------------------------------------------ consteval arm
CE_MODES_QUICK = [('g++', 'c++17', True), ('clang++', 'c++20', False), ('g++', 'c++2b', False), ('clang++', 'c++17', False)]
CE_MODES_THOROUGH = [(c, s, a) for c in ('g++', 'clang++') for (s, a) in (('c++17', True), ('c++17', False), ('c++20', False), ('c++2b', False))]
SQRT_DEP = {'sqrt', 'hypot', 'asin', 'acos', 'sqrt_abacus'}


def consteval_arm(prop, tier, seed, cov, violations, inconcl, notes, arms_used, points_path):
    """points: lines 'entry a b expected is_double' written by the C08 monitor run from executed configurations"""
    arms_used.append('constant-evaluator')
    pts = []
    with open(points_path) as f:
        for line in f:
            e, a, b, r, dbl = line.split()
            pts.append((e, int(a), int(b), int(r), dbl == '1'))
    if not pts:
        inconcl.append('constant-evaluator arm: the monitor produced no sample points')
        return
    modes = CE_MODES_QUICK if tier == 'quick' else CE_MODES_THOROUGH
    wd = os.path.join(V.CACHE, 'run', f'ce-{os.getpid()}')
    shutil.rmtree(wd, ignore_errors=True)
    os.makedirs(wd)
    nchunks = V.NCPU
    jobs = []

    def reported_flag(mode):
        """what the library itself reports as sqrt_constexpr_available in this mode (the claim that is then held against it)"""
        cc, std, abacus = mode
        src = os.path.join(wd, f"flag-{'gcc' if cc == 'g++' else 'clang'}-{std}{'-abacus' if abacus else ''}.cc")
        with open(src, 'w') as f:
            f.write('#include <fixedmath/limits.h>\n#include <fixedmath/math.h>\nstatic_assert(!fixedmath::sqrt_constexpr_available, "reported");\n')
        cmd = [cc, f'-std={std}', '-fsyntax-only', '-w', f'-D{V.HOOK_DEFINE}=1', f'-I{V.LIB_INC}'] + (['-DFIXEDMATH_ENABLE_SQRT_ABACUS_ALGO'] if abacus else [])
        r = V.run(cmd + [src])
        if r.returncode == 0:
            return False
        if 'reported' in r.stderr or 'static assertion' in r.stderr or 'static_assert' in r.stderr:
            return True
        raise V.Inconclusive(f'constant-evaluator arm: cannot read sqrt_constexpr_available in {mode}: {r.stderr[-300:]}')
    with ThreadPoolExecutor(len(modes)) as ex:
        flags = dict(zip(modes, ex.map(reported_flag, modes)))
    for (cc, std, abacus) in modes:
        mname = f"{'gcc' if cc == 'g++' else 'clang'}-{std}{'-abacus' if abacus else ''}"
        sqrt_ok = flags[(cc, std, abacus)]   # sqrt_constexpr_available as reported by the library in this mode
        mp = [p for p in pts if sqrt_ok or p[0] not in ('sqrt', 'hypot', 'asin', 'acos')]
        for ch in range(nchunks):
            sub = mp[ch::nchunks]
            if not sub:
                continue
            src = os.path.join(wd, f'{mname}-{ch}.cc')
            with open(src, 'w') as f:
                f.write('#define VERIF_KERNELS_ONLY 1\n#include "%s"\n' % os.path.join(V.HARNESS, 'wrappers.cc'))
                f.write('constexpr long long canon_d(long long v) { return ((v & 0x7ff0000000000000ll) == 0x7ff0000000000000ll && (v & 0xfffffffffffffll)) ? 0x7ff8000000000000ll : v; }\n')
                for (e, a, b, r, dbl) in sub:
                    call = f'k_{e}<>({a}ll - 0, {b}ll - 0)'.replace('-9223372036854775808ll - 0', '(-9223372036854775807ll - 1)')
                    if dbl:
                        call = f'canon_d({call})'
                    f.write(f'static_assert({call} == {r}ll - 0, "pt");\n'.replace('== -9223372036854775808ll - 0', '== (-9223372036854775807ll - 1)'))
            jobs.append((cc, std, abacus, mname, src, sub))

    def compile_job(j):
        cc, std, abacus, mname, src, sub = j
        cmd = [cc, f'-std={std}', '-fsyntax-only', '-w', f'-D{V.HOOK_DEFINE}=1', f'-I{V.LIB_INC}']
        cmd += ['-fmax-errors=0'] if cc == 'g++' else ['-ferror-limit=0', '-fconstexpr-steps=100000000']
        if cc == 'g++':
            cmd += ['-fconstexpr-ops-limit=1000000000', '-fconstexpr-loop-limit=10000000']
        if abacus:
            cmd.append('-DFIXEDMATH_ENABLE_SQRT_ABACUS_ALGO')
        r = V.run(cmd + [src])
        if r.returncode != 0 and 'error' not in r.stderr:   # killed / resource exhaustion on a loaded machine: one retry
            r = V.run(cmd + [src])
        return r.returncode, r.stderr
    with ThreadPoolExecutor(V.NCPU) as ex:
        results = list(ex.map(compile_job, jobs))
    classes = {}
    ce_cov = {}
    total = 0
    for j, (rc, err) in zip(jobs, results):
        cc, std, abacus, mname, src, sub = j
        mc = ce_cov.setdefault(mname, {'evaluations': 0, 'accepted_and_equal': 0, 'not_constant': 0, 'value_mismatch': 0, 'entries': set()})
        bad = {}
        other_errors = []
        cur = None   # point whose diagnostics are being read: the reason follows the static_assert line

        def reason_of(text):
            t = text.lower()
            if 'division by zero' in t:
                return 'division-by-zero'
            if 'non-constexpr function' in t or "non-'constexpr' function" in t or 'non-\u2018constexpr\u2019 function' in t:
                return 'call-of-non-constexpr-function'
            if 'outside the range of representable values' in t:
                return 'float-to-integer-out-of-range'
            if 'overflow' in t or 'produces an infinity' in t or 'produces a nan' in t:
                return 'overflow'
            if 'shift' in t:
                return 'invalid-shift'
            if 'array' in t and ('bound' in t or 'subscript' in t or 'index' in t):
                return 'out-of-bounds'
            return None
        for line in err.splitlines():
            m = re.match(r'(.+?):(\d+):(\d+): (?:fatal )?(error|note): (.*)', line)
            if not m:
                continue
            msg = m.group(5)
            if m.group(4) == 'error' and os.path.abspath(m.group(1)) == os.path.abspath(src):
                ln = int(m.group(2)) - 4   # three header lines precede the points
                if 0 <= ln < len(sub):
                    kind = 'value-mismatch' if ('static assertion failed' in msg or 'static_assert failed' in msg) else 'not-a-constant-expression'
                    if ln not in bad:
                        bad[ln] = [kind, msg, None]
                    elif kind == 'not-a-constant-expression':
                        bad[ln][0] = kind
                    cur = ln
                    r = reason_of(msg)
                    if r and not bad[ln][2]:
                        bad[ln][2] = r
                    continue
            if cur is not None:
                r = reason_of(msg)
                if r and not bad[cur][2]:
                    bad[cur][2] = r
            elif m.group(4) == 'error':
                other_errors.append(line)
        if rc != 0 and not bad:
            inconcl.append(f'constant-evaluator {mname}: compiler failed without a point diagnostic: {err[-400:]}')
        if other_errors and not bad:
            inconcl.append(f'constant-evaluator {mname}: {other_errors[:2]}')
        for i, p in enumerate(sub):
            mc['evaluations'] += 1
            mc['entries'].add(p[0])
            total += 1
            if i not in bad:
                mc['accepted_and_equal'] += 1
                continue
            kind, msg, reason = bad[i]
            mc['not_constant' if kind != 'value-mismatch' else 'value_mismatch'] += 1
            key = f'consteval/{p[0]}/{kind}'
            if kind != 'value-mismatch':
                special = ''
                if p[4]:
                    d = struct.unpack('<d', struct.pack('<q', p[3]))[0]
                    if d != d or d in (float('inf'), float('-inf')):
                        special = '/double-result-inf-or-nan'
                # an IEEE-special double result: the evaluators word the rejection differently, the class is the same
                key += special if special else '/' + (reason or 'unclassified')
            c = classes.setdefault(key, {'key': key, 'count': 0, 'per_cfg': {}, 'witnesses': [], 'arm': 'consteval'})
            c['count'] += 1
            c['per_cfg'][mname] = c['per_cfg'].get(mname, 0) + 1
            if len(c['witnesses']) < 4:
                c['witnesses'].append({'mode': mname, 'entry': p[0], 'a': p[1], 'b': p[2], 'runtime_value': p[3], 'diagnostic': msg[:200]})
    for m in ce_cov.values():
        m['entries'] = len(m['entries'])
    for (cc, std, abacus), fl in flags.items():
        mname = f"{'gcc' if cc == 'g++' else 'clang'}-{std}{'-abacus' if abacus else ''}"
        if mname in ce_cov:
            ce_cov[mname]['sqrt_constexpr_available_reported_by_library'] = fl
    for c in classes.values():
        violations.append(c)
    cov['constant_evaluator'] = ce_cov
    cov['evaluations'] += total
    cov['rule'] += ' | constant-evaluator arm: sample points per entry point forced into static_assert in each compiler/standard mode, expected values taken from the executed configurations'
    shutil.rmtree(wd, ignore_errors=True)


# ------------------------------------------------------------------------------------------------ dispatch
def setup():
    for sb in san_builds('quick'):
        build_san(sb)
    for tb in tsan_builds('quick'):
        build_tsan(tb)
    build_fuzz()


def pre_monitor_env(prop, tier):
    """environment additions for the monitor run"""
    if prop == 'C08':
        p = os.path.join(V.CACHE, 'run')
        os.makedirs(p, exist_ok=True)
        return {'VERIF_POINTS': os.path.join(p, f'points-{os.getpid()}.txt')}
    return {}


def extra_arms(prop, tier, seed, cov, violations, inconcl, notes, arms_used, env=None):
    if prop == 'C07':
        san_arm(prop, tier, seed, cov, violations, inconcl, notes, arms_used)
        if os.environ.get('VERIF_TSAN', '1') != '0':
            tsan_arm(prop, tier, seed, cov, violations, inconcl, notes, arms_used)
    if prop == 'C08':
        pp = (env or {}).get('VERIF_POINTS')
        if pp and os.path.exists(pp):
            consteval_arm(prop, tier, seed, cov, violations, inconcl, notes, arms_used, pp)
            os.unlink(pp)
        else:
            inconcl.append('constant-evaluator arm: no points file')
    if prop != 'C08' and os.environ.get('VERIF_FUZZ', '1') != '0':
        fuzz_arm(prop, tier, seed, cov, violations, inconcl, notes, arms_used)
    if tier == 'thorough' or os.environ.get('VERIF_REACH') == '1':
        reach_arm(prop, tier, seed, cov, inconcl, notes, arms_used)


def replay(prop, rec):
    """re-run a sanitizer / consteval witness against the current tree"""
    w = rec['witnesses'][0]
    if rec.get('arm') == 'sanitizer':
        sbs = [b for b in san_builds('thorough') if b.name == w.get('build')] or san_builds('quick')[:1]
        exe = build_san(sbs[0])
        env = dict(os.environ, ASAN_OPTIONS=ASAN_OPTS)
        # the driver regenerates its deterministic argument stream for that one entry point
        r = subprocess.run([exe, '0', '1', str(rec.get('seed', 1)), '200000', sbs[0].mode, w['entry']], capture_output=True, text=True, env=env)
        print(r.stdout[-3000:])
        hit = any(l.startswith('EV ') for l in r.stdout.splitlines())
        if hit:
            print(f"VIOLATION property={prop} replay=(sanitizer witness re-observed)")
            return 1
        return 0
    if rec.get('arm') == 'thread-sanitizer':
        tb = ([b for b in tsan_builds('thorough') if tsan_name(b) == w.get('build')] or tsan_builds('quick'))[0]
        exe = build_tsan(tb)
        env = dict(os.environ, TSAN_OPTIONS='halt_on_error=0:report_signal_unsafe=0:exitcode=0:history_size=2')
        hit = False
        for attempt in range(5):   # schedules differ from run to run
            r = subprocess.run([exe, '8', str(rec.get('seed', 1) + attempt), '20000', '5000'] + ([w['entry']] if w.get('entry') else []), capture_output=True, text=True, env=env)
            if parse_tsan_reports(r.stderr) or 'EV differs' in r.stdout or 'TOTAL' not in r.stdout:
                print(r.stdout[-1500:], r.stderr[-2500:])
                hit = True
                break
        if hit:
            print(f"VIOLATION property={prop} replay=(thread-sanitizer witness re-observed)")
            return 1
        return 0
    print('replay of constant-evaluator witnesses: re-run the check; the points are regenerated from the seed')
    return 2


# ------------------------------------------------------------------------------------------------ reach arm (gcov)
ANCHORS = {
    'C01': ['fixed_t fixed_additioni(', 'fixed_t fixed_substracti('],
    'C02': ['bool multiply_overflows(', 'fixed_t fixed_multiplyi (', 'fixed_t fixed_multiply_scalar (fixed_t lh'],
    'C03': ['fixed_t fixed_divisionf(', 'fixed_t fixed_division_by_scalar('],
    'C04': ['fixed_t integral_to_fixed(', 'integral_type fixed_to_integral ('],
    'C05': ['fixed_t floating_point_to_fixed (', 'floating_point_type fixed_to_floating_point('],
    'C06': ['fixed_t abs(', 'bool isnan('],
    'C09': ['fixed_t sin_range(', 'fixed_t sin(', 'fixed_t cos('],
    'C10': ['fixed_internal tan_(', 'fixed_internal tan_range(', 'fixed_t tan('],
    'C11': ['fixed_internal atan(', 'fixed_internal atan_sum(', 'fixed_t atan(', 'fixed_t atan2('],
    'C12': ['fixed_internal asin(', 'fixed_t asin(', 'fixed_t acos('],
    'C13': ['fixed_t sqrt_abacus(', 'fixed_t sqrt_std_math(', 'fixed_internal highest_pwr4_clz('],
    'C14': ['fixed_t hypot(fixed_t lh'],
    'C15': ['fixed_t ceil(', 'fixed_t floor('],
    'C16': ['fixed_t promote_to_fixed(', 'double promote_to_double(', 'auto promote_type_to_signed('],
    'C18': ['fixed_t operator >> (', 'fixed_t operator << ('],
    'C19': ['fixed_t sin_angle_aprox(', 'fixed_t cos_angle_aprox(', 'fixed_t sqrt_aprox(fixed_t value) noexcept', 'fixed_t atan_index_aprox( fixed_t value ) noexcept'],
    'C20': ['fixed_t angle_to_radians(', 'fixed_t sin_angle(', 'fixed_t cos_angle(', 'fixed_t tan_angle('],
}
ANCHORS['C17'] = ANCHORS['C01'] + ANCHORS['C02'] + ANCHORS['C03']
ANCHORS['C07'] = sorted(set(sum((v for v in ANCHORS.values()), []))) + ['fixed_t hypot_aprox (fixed_t lh, fixed_t rh ) noexcept']
ANCHORS['C08'] = ANCHORS['C07']


def locate_functions(lines, header):
    """every (first_line, last_line), 1-based, of a definition whose header contains `header`, by brace matching"""
    out = []
    for i, l in enumerate(lines):
        if header in ' '.join(l.split()) or header in l:
            # definition, not a declaration: a '{' must come before a ';'
            j = i
            depth = 0
            started = False
            while j < len(lines) and j < i + 400:
                txt = lines[j]
                if not started and ';' in txt and '{' not in txt:
                    break
                for ch in txt:
                    if ch == '{':
                        depth += 1
                        started = True
                    elif ch == '}':
                        depth -= 1
                if started and depth == 0:
                    out.append((i + 1, j + 1))
                    break
                j += 1
    return out


def reach_arm(prop, tier, seed, cov, inconcl, notes, arms_used):
    arms_used.append('reach-gcov')
    d = os.path.join(V.CACHE, 'cov', f'{V.tree_hash()}-{os.getpid()}')
    shutil.rmtree(d, ignore_errors=True)
    os.makedirs(d)
    try:
        flags = ['-std=c++17', '-O0', '--coverage', '-w', '-fPIC', f'-D{V.HOOK_DEFINE}=1', f'-I{V.LIB_INC}', '-DVERIF_CFG="gcc-O0-coverage"']
        abacus = prop in V.NEEDS_ABACUS
        if abacus:
            flags.append('-DFIXEDMATH_ENABLE_SQRT_ABACUS_ALGO')
        objs = []
        for src in (os.path.join(V.HARNESS, 'wrappers.cc'), V.LIB_SRC):
            o = os.path.join(d, os.path.basename(src) + '.o')
            r = V.run(['g++'] + flags + ['-c', src, '-o', o])
            if r.returncode != 0:
                raise V.Inconclusive('coverage build failed: ' + r.stderr[-1500:])
            objs.append(o)
        so = os.path.join(d, 'cov.so')
        r = V.run(['g++', '--coverage', '-shared', '-Wl,-Bsymbolic'] + objs + ['-o', so])
        if r.returncode != 0:
            raise V.Inconclusive('coverage link failed: ' + r.stderr[-1500:])
        exe = V.build_monitor()
        out = os.path.join(d, 'mon.json')
        r = V.run([exe, prop, 'quick', str(seed), out, '--threads', str(V.NCPU), '--scale', '0.05', so], timeout=1800)
        if r.returncode != 0:
            raise V.Inconclusive('coverage monitor run failed: ' + r.stderr[-800:])
        gc = V.run(['gcov', '--json-format', '--stdout', '--branch-probabilities'] + [o[:-2] + '.gcda' for o in objs], cwd=d)
        per_file = {}
        per_file_br = {}
        for doc in re.findall(r'^\{.*\}$', gc.stdout, re.M):
            try:
                j = json.loads(doc)
            except Exception:
                continue
            for f in j.get('files', []):
                if '/fixed_lib/' not in os.path.abspath(os.path.join(d, f['file'])):
                    continue
                m = per_file.setdefault(os.path.abspath(os.path.join(d, f['file'])), {})
                mb = per_file_br.setdefault(os.path.abspath(os.path.join(d, f['file'])), {})
                for ln in f['lines']:
                    m[ln['line_number']] = m.get(ln['line_number'], 0) + ln['count']
                    br = [b['count'] for b in ln.get('branches', []) if not b.get('throw')]
                    if br:
                        old = mb.get(ln['line_number'])
                        mb[ln['line_number']] = [x + y for x, y in zip(old, br)] if old and len(old) == len(br) else br
        reach = {}
        for header in ANCHORS.get(prop, []):
            found = False
            for path, counts in per_file.items():
                src_lines = open(path, errors='replace').read().splitlines()
                # a header may also match a disabled (#if 0) twin: take the first definition that has executable lines
                locs = [l for l in locate_functions(src_lines, header) if any(l[0] <= n <= l[1] for n in counts)]
                if not locs:
                    continue
                loc = locs[0]
                found = True
                exe_lines = [n for n in counts if loc[0] <= n <= loc[1]]
                hit = [n for n in exe_lines if counts[n] > 0]
                brs = {n: b for n, b in per_file_br.get(path, {}).items() if loc[0] <= n <= loc[1]}
                nb = sum(len(b) for b in brs.values())
                nt = sum(1 for b in brs.values() for x in b if x > 0)
                reach[header.strip()] = {'file': os.path.relpath(path, V.REPO), 'lines': f'{loc[0]}-{loc[1]}', 'executable_lines': len(exe_lines), 'lines_hit': len(hit),
                                         'branch_outcomes': nb, 'branch_outcomes_taken': nt, 'lines_with_untaken_outcome': sorted(n for n, b in brs.items() if any(x == 0 for x in b))[:20],
                                         'max_count': max((counts[n] for n in exe_lines), default=0), 'never_executed_lines': sorted(set(exe_lines) - set(hit))[:20]}
                if not hit:
                    notes.append(f'reach: anchored function "{header.strip()}" was never executed by the {prop} workload (dead after a refactoring, or unreached)')
                break
            if not found:
                notes.append(f'reach: anchor "{header.strip()}" not located in the current sources (refactored?)')
        if reach and not any(v['lines_hit'] for v in reach.values()):
            inconcl.append(f'reach: none of the anchored functions of {prop} was executed by its workload')
        cov['reach'] = {'configuration': 'g++ -O0 --coverage' + (' abacus' if abacus else ''), 'workload': 'the property workload at VERIF_SCALE 0.05, quick bounds',
                        'files_measured': sorted(os.path.relpath(p, V.REPO) for p in per_file), 'anchored_functions': reach}
    finally:
        shutil.rmtree(d, ignore_errors=True)


# ------------------------------------------------------------------------------------------------ fuzz arm (libFuzzer)
def build_fuzz():
    """clang++ -fsanitize=fuzzer,address,undefined build of wrappers + library, linked with the monitor judges (g++ objects)"""
    d = os.path.join(V.CACHE, 'obj', V.tree_hash())
    os.makedirs(d, exist_ok=True)
    msrcs = sorted(glob.glob(os.path.join(V.HARNESS, 'monitor', '*.cc')))
    hk = V.file_hash(msrcs + sorted(glob.glob(os.path.join(V.HARNESS, 'monitor', '*.h'))) + [os.path.join(V.HARNESS, 'wrappers.cc')])
    exe = os.path.join(d, f'fuzz-{hk[:16]}')
    if os.path.exists(exe):
        return exe
    libflags = ['-std=c++17', '-O1', '-g', '-w', f'-D{V.HOOK_DEFINE}=1', '-DVERIF_SINIT_LAZY=1', f'-I{V.LIB_INC}', '-DVERIF_CFG="clang-fuzz-asan-ubsan"',
                '-fsanitize=fuzzer-no-link,address,undefined,float-cast-overflow', '-fno-sanitize=object-size', '-fno-sanitize-recover=undefined,float-cast-overflow']

    def comp(job):
        cc, flags, src, o = job
        r = V.run([cc] + flags + ['-c', src, '-o', o])
        if r.returncode != 0:
            raise V.Inconclusive('fuzz build failed: ' + src + '\n' + r.stderr[-2000:])
        return o
    jobs = [('clang++', libflags, os.path.join(V.HARNESS, 'wrappers.cc'), exe + '.w.o'), ('clang++', libflags, V.LIB_SRC, exe + '.l.o')]
    for s in msrcs:
        jobs.append(('g++', ['-std=c++17', '-O2', '-g', '-w', '-DVERIF_FUZZ=1'], s, exe + '.' + os.path.basename(s) + '.o'))
    with ThreadPoolExecutor(V.NCPU) as ex:
        objs = list(ex.map(comp, jobs))
    r = V.run(['clang++', '-fsanitize=fuzzer,address,undefined'] + objs + ['-o', exe + '.tmp', '-ldl', '-lpthread', '-lquadmath'])
    if r.returncode != 0:
        raise V.Inconclusive('fuzz link failed\n' + r.stderr[-2000:])
    os.replace(exe + '.tmp', exe)
    for o in objs:
        os.unlink(o)
    return exe


def fuzz_arm(prop, tier, seed, cov, violations, inconcl, notes, arms_used):
    arms_used.append('coverage-guided-fuzz')
    exe = build_fuzz()
    # libFuzzer writes every new corpus unit as a file: keep the transient corpus in memory-backed storage when available
    base_tmp = '/dev/shm' if os.path.isdir('/dev/shm') and os.access('/dev/shm', os.W_OK) else os.path.join(V.CACHE, 'run')
    wd = os.path.join(base_tmp, f'verif-fuzz-{prop}-{os.getpid()}')
    shutil.rmtree(wd, ignore_errors=True)
    os.makedirs(os.path.join(wd, 'seeds'))
    known = os.path.join(wd, 'known.txt')
    with open(known, 'w') as f:
        for k in V.load_known():
            if k.get('property') == prop and k.get('status') == 'open':
                f.write(k['key'] + '\n')
    # inputs per process; the judges of C01/C16/C17 make 50-100 library calls per input
    # inputs per process: (quick, thorough). The judges of C01/C16/C17 make 50-100 library calls per input, the others a handful.
    budget = {'C01': (35000, 250000), 'C16': (20000, 150000), 'C17': (70000, 500000), 'C02': (100000, 700000), 'C04': (100000, 700000),
              'C03': (300000, 2000000), 'C05': (400000, 2500000), 'C07': (100000, 3000000)}.get(prop, (1000000, 5000000))
    runs = int(float(os.environ.get('VERIF_FUZZ_RUNS', str(budget[1] if tier == 'thorough' else budget[0]))) * float(os.environ.get('VERIF_SCALE', '1')))
    nproc = V.NCPU
    env = dict(os.environ, VERIF_FUZZ_PROP=prop, VERIF_FUZZ_KNOWN=known, ASAN_OPTIONS=ASAN_OPTS + ':abort_on_error=1', UBSAN_OPTIONS='print_stacktrace=0')
    # seed corpus is written by the first process start
    os.makedirs(os.path.join(wd, 'empty'))
    r0 = subprocess.run([exe, '-runs=0', os.path.join(wd, 'empty')], capture_output=True, text=True, env=dict(env, VERIF_FUZZ_SEEDDIR=os.path.join(wd, 'seeds')))
    if r0.returncode != 0:
        summ = re.search(r'SUMMARY: (.*)', r0.stderr)
        if prop in ('C07', 'C19') and summ and ('Sanitizer' in summ.group(1)):
            # a sanitizer report before any input was executed: the wrappers' static initialiser calls the compiled table
            # functions (C19's functions; not returning normally is C07's subject)
            site = re.sub(r':\d+:\d+', '', re.sub(r'0x[0-9a-f]+', '', summ.group(1))).strip()[:160]
            violations.append({'key': f'fuzz/{prop}/sanitizer-report-during-static-initialisation/{site}', 'count': 1, 'per_cfg': {'clang-fuzz-asan-ubsan': 1},
                               'witnesses': [{'stderr': r0.stderr[-1500:]}], 'arm': 'fuzz'})
            cov['fuzz'] = {'target': 'clang++ -O1 -fsanitize=fuzzer,address,undefined', 'executed_inputs': 0, 'note': 'the target aborted during static initialisation'}
            shutil.rmtree(wd, ignore_errors=True)
            return
        raise V.Inconclusive('fuzz target failed to start: ' + r0.stderr[-800:])

    def worker(i):
        corpus = os.path.join(wd, f'corpus{i}')
        os.makedirs(corpus)
        cmd = [exe, f'-seed={seed * 1000 + i + 1}', f'-runs={runs}', '-max_len=25', '-len_control=0', '-use_value_profile=1', '-reduce_inputs=0',
               '-print_final_stats=1', '-handle_segv=0', '-handle_fpe=0', '-handle_ill=0', '-handle_bus=0', '-timeout=1200',
               f'-artifact_prefix={wd}/art{i}-', corpus, os.path.join(wd, 'seeds')]
        try:
            r = subprocess.run(cmd, capture_output=True, text=True, env=env, timeout=int(os.environ.get('VERIF_WATCHDOG_S', '3600')))
        except subprocess.TimeoutExpired:
            return i, None, ''
        return i, r.returncode, r.stderr
    with ThreadPoolExecutor(nproc) as ex:
        res = list(ex.map(worker, range(nproc)))
    total_exec = 0
    best_cov = best_ft = corpus_units = 0
    found = []
    for i, rc, err in res:
        if rc is None:
            inconcl.append(f'fuzz worker {i} hit the watchdog')
            continue
        m = re.search(r'stat::number_of_executed_units:\s*(\d+)', err)
        if m:
            total_exec += int(m.group(1))
        for m in re.finditer(r'cov: (\d+) ft: (\d+) corp: (\d+)', err):
            best_cov, best_ft, corpus_units = max(best_cov, int(m.group(1))), max(best_ft, int(m.group(2))), max(corpus_units, int(m.group(3)))
        m = re.search(r'FUZZ-VIOLATION check=(\S+) a=(-?\d+) b=(-?\d+) c=(-?\d+) key=(.*)', err)
        if m:
            found.append({'worker': i, 'check': m.group(1), 'a': int(m.group(2)), 'b': int(m.group(3)), 'c': int(m.group(4)), 'key': m.group(5).strip()})
        elif rc != 0:
            # sanitizer abort or crash inside the library: decode the artifact
            arts = glob.glob(f'{wd}/art{i}-*')
            summ = re.search(r'SUMMARY: (.*)', err)
            rec = {'worker': i, 'key': None, 'sanitizer': summ.group(1)[:200] if summ else err[-200:]}
            if arts:
                data = open(arts[0], 'rb').read()
                if len(data) >= 25:
                    a, b, c = struct.unpack('<qqq', data[1:25])
                    rec.update({'check_index': data[0], 'a': a, 'b': b, 'c': c})
            found.append(rec)
    classes = {}
    check_names = list((cov.get('check_docs') or {}).keys())
    replayed = set()
    for f in found:
        keys = []
        if f.get('key'):
            keys = [f['key']]
        else:
            # sanitizer abort / crash in the instrumented library: re-judge the decoded arguments in the ordinary configurations
            if 'check_index' in f and check_names:
                f['check'] = check_names[f['check_index'] % len(check_names)]
                sig = (f['check'], f['a'], f['b'], f['c'])
                if sig not in replayed and len(replayed) < 8:
                    replayed.add(sig)
                    try:
                        rr = V.run_monitor(prop, tier, seed, V.configs_for(prop, 'quick'), ['--replay', f['check'], str(f['a']), str(f['b']), str(f['c'])])
                        keys = [v['key'] for v in rr['violations']]
                    except V.Inconclusive:
                        keys = []
            if not keys:
                site = re.sub(r'0x[0-9a-f]+', '', f.get('sanitizer', ''))
                site = re.sub(r':\d+:\d+', '', site)
                keys = [f'fuzz/{prop}/sanitizer-or-crash/{site.strip()[:120]}']
        for key in keys:
            c = classes.setdefault(key, {'key': key, 'count': 0, 'per_cfg': {'clang-fuzz-asan-ubsan': 0}, 'witnesses': [], 'arm': 'fuzz'})
            c['count'] += 1
            c['per_cfg']['clang-fuzz-asan-ubsan'] += 1
            if len(c['witnesses']) < 4:
                c['witnesses'].append({k: v for k, v in f.items() if k != 'key'})
    for c in classes.values():
        violations.append(c)
    if total_exec == 0:
        inconcl.append('fuzz arm executed no inputs')
    cov['fuzz'] = {'target': 'clang++ -O1 -fsanitize=fuzzer,address,undefined (library + wrappers instrumented), judges = the value monitor oracles', 'processes': nproc,
                   'runs_per_process': runs, 'executed_inputs': total_exec, 'edge_coverage': best_cov, 'features': best_ft, 'corpus_units': corpus_units,
                   'input_format': '[check index u8][a i64][b i64][c i64]', 'violations_found': len(found)}
    cov['evaluations'] += total_exec
    cov['rule'] += ' | fuzz arm: libFuzzer (value profile) mutates the arguments of the named checks under coverage feedback from the instrumented library'
    shutil.rmtree(wd, ignore_errors=True)

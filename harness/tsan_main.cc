// Concurrency driver (C07): the library promises pure functions - no shared mutable state - so any two calls may run
// at the same time on different threads. Linked with wrappers.cc + fixed_math.cc compiled with -fsanitize=thread.
//
// For every entry point, in turn:
//   phase A  one thread computes reference results for a shared argument list (boundary values + random arguments)
//   phase B  all threads, released together by a barrier, call the SAME entry point at the same time: each walks the shared
//            list (same arguments as the other threads, rotated start) and a private random list; every result on the shared
//            list is compared with the phase-A reference (a value that depends on what other threads are doing is a violation
//            even if the race detector missed the access pair)
// ThreadSanitizer observes every memory access of the instrumented library code; its reports go to stderr (halt_on_error=0)
// and are attributed to entry points by the w_<entry> frame in the reported stacks (the Python arm does that).
//
//   tsan_driver <threads> <seed> <shared_args_per_entry> <private_args_per_entry> [only-entry]
// Output (stdout):
//   EV differs entry=<e> a=<int> b=<int> reference=<int> concurrent=<int> thread=<n>
//   SUMMARY entry=<e> domain=<ka>,<kb> calls=<n> concurrent_calls=<n> compared=<n> differs=<n>
//   TOTAL entries=<n> calls=<n> threads=<n>
#include "monitor/core.h"
#include "monitor/gen.h"
#include <pthread.h>
#include <atomic>
#include <unistd.h>

struct w_entry { const char * name; fn2 fn; };
extern "C" const w_entry w_entries[];
extern "C" const char * w_cfg();

static int T = 8;
static pthread_barrier_t bar;
static const w_entry * cur = nullptr;
static Domain cur_dom;
static std::vector<int64_t> SA, SB, REF;     // shared argument list and phase-A results (written by thread 0 between barriers)
static std::atomic<long> n_differs{ 0 }, n_compared{ 0 }, n_conc{ 0 };
static uint64_t g_seed = 1; static long g_private = 0;
static bool done = false;

static void * worker(void * arg)
  {
  int id = (int)(intptr_t)arg;
  for(;;)
    {
    pthread_barrier_wait(&bar);          // main has published cur / SA / SB / REF
    if(done) return nullptr;
    const w_entry * e = cur; size_t n = SA.size();
    long differs = 0, compared = 0, calls = 0;
    Rng r; r.seed(g_seed + 77, strhash(e->name) + (uint64_t)id);
    size_t start = n ? (size_t)id * n / (size_t)T : 0;
    for(size_t i = 0; i < n; ++i)
      {
      size_t k = (start + i) % n;
      int64_t v = e->fn(SA[k], SB[k]); ++calls; ++compared;
      if(v != REF[k])
        {
        if(++differs <= 3) { printf("EV differs entry=%s a=%" PRId64 " b=%" PRId64 " reference=%" PRId64 " concurrent=%" PRId64 " thread=%d\n", e->name, SA[k], SB[k], REF[k], v, id); fflush(stdout); }
        }
      if((i & 3) == 0 && (long)(i / 4) < g_private)
        { // private arguments interleaved with the shared ones: different inputs in flight at the same time
        int64_t a = random_of_kind(r, cur_dom.a), b = random_of_kind(r, cur_dom.b);
        volatile int64_t s = e->fn(a, b); (void)s; ++calls;
        }
      }
    n_differs += differs; n_compared += compared; n_conc += calls;
    pthread_barrier_wait(&bar);          // phase B complete
    }
  }

int main(int argc, char ** argv)
  {
  if(argc < 5) { fprintf(stderr, "usage: tsan_driver threads seed shared private [entry]\n"); return 2; }
  T = atoi(argv[1]); g_seed = strtoull(argv[2], nullptr, 10); long nshared = atol(argv[3]); g_private = atol(argv[4]);
  const char * only = argc > 5 ? argv[5] : nullptr;
  if(T < 2) T = 2;
  printf("CFG %s threads=%d\n", w_cfg(), T);
  pthread_barrier_init(&bar, nullptr, (unsigned)T + 1);
  std::vector<pthread_t> th((size_t)T);
  for(int i = 0; i < T; ++i) pthread_create(&th[(size_t)i], nullptr, worker, (void *)(intptr_t)i);
  long entries = 0, total = 0;
  for(const w_entry * e = w_entries; e->name; ++e)
    {
    Domain d;
    if(!entry_domain(e->name, d)) { printf("NODOMAIN entry=%s\n", e->name); continue; }
    if(only && strcmp(only, e->name) != 0) continue;
    // the stream-output wrapper formats through a std::ostringstream: libstdc++ is not instrumented, and the locale
    // machinery it touches is synchronised in ways ThreadSanitizer cannot see from outside
    if(strcmp(e->name, "ostream") == 0) continue;
    Rng r; r.seed(g_seed, strhash(e->name));
    const auto & A = boundary(d.a); const auto & B = boundary(d.b);
    SA.clear(); SB.clear();
    for(long i = 0; i < nshared; ++i)
      {
      int64_t a, b;
      if(i & 1) { a = A[r.below(A.size())]; b = B[r.below(B.size())]; }
      else { a = random_of_kind(r, d.a); b = (d.a == K_FIX && d.b == K_FIX && (i & 2)) ? related_fix(r, a) : random_of_kind(r, d.b); }
      SA.push_back(a); SB.push_back(b);
      }
    REF.resize(SA.size());
    for(size_t i = 0; i < SA.size(); ++i) REF[i] = e->fn(SA[i], SB[i]);   // phase A, no other thread is running library code
    long calls_a = (long)SA.size();
    cur = e; cur_dom = d; n_differs = 0; n_compared = 0; n_conc = 0;
    pthread_barrier_wait(&bar);   // release phase B
    pthread_barrier_wait(&bar);   // wait for its end
    printf("SUMMARY entry=%s domain=%s,%s calls=%ld concurrent_calls=%ld compared=%ld differs=%ld\n", e->name, kind_name(d.a), kind_name(d.b), calls_a + n_conc.load(), n_conc.load(), n_compared.load(), n_differs.load());
    fflush(stdout);
    ++entries; total += calls_a + n_conc.load();
    }
  done = true;
  pthread_barrier_wait(&bar);
  for(auto & t : th) pthread_join(t, nullptr);
  printf("TOTAL entries=%ld calls=%ld threads=%d\n", entries, total, T);
  return 0;
  }

// Thin extern "C" wrappers round every public entry point of arturbac/fixed_math.
// One translation unit, compiled once per configuration (compiler, -O, -std, sqrt
// algorithm, sanitizer) from /repo's working tree. Every wrapper has the uniform
// signature   int64_t w(int64_t a, int64_t b)   on raw representations, so that the
// monitor core never links library code and can drive every entry generically.
//
//  fixed_t   <-> raw int64 (.v)
//  integer T <-> static_cast<T>(int64)  (uint64: same bits)
//  float     <-> IEEE bits in the low 32 bits
//  double    <-> IEEE bits
//  bool      <-> 0/1
// math.h/limits.h are included the way the unit tests do: with <fixedmath/fixed_math.hpp> a direct call of
// arithmetic_to_fixed() is ambiguous (the umbrella header re-declares it with a different template head).
// One configuration (VERIF_UMBRELLA) includes the umbrella header first, the way the README tells users to; there the
// direct arithmetic_to_fixed() wrappers go through make_fixed() instead (see a2f_* below).
#if defined(VERIF_UMBRELLA)
#include <fixedmath/fixed_math.hpp>
#endif
#include <fixedmath/limits.h>
#include <fixedmath/math.h>
#include <fixedmath/iostream.h>
#include <cstdint>
#include <sstream>
#include <type_traits>

#pragma GCC diagnostic ignored "-Wdeprecated-declarations"

using namespace fixedmath;
using std::int64_t;

#ifndef VERIF_CFG
#define VERIF_CFG "unknown"
#endif

namespace
{
template<class T> constexpr T arg(int64_t x) noexcept
  {
  if constexpr (std::is_same_v<T, float>)
    return __builtin_bit_cast(float, static_cast<uint32_t>(static_cast<uint64_t>(x)));
  else if constexpr (std::is_same_v<T, double>)
    return __builtin_bit_cast(double, x);
  else if constexpr (std::is_same_v<T, fixed_t>)
    return as_fixed(x);
  else
    return static_cast<T>(x);
  }
template<class T> constexpr int64_t ret(T v) noexcept
  {
  if constexpr (std::is_same_v<T, float>)
    return static_cast<int64_t>(__builtin_bit_cast(uint32_t, v));
  else if constexpr (std::is_same_v<T, double>)
    return __builtin_bit_cast(int64_t, v);
  else if constexpr (std::is_same_v<T, fixed_t>)
    return v.v;
  else if constexpr (std::is_same_v<T, bool>)
    return v ? 1 : 0;
  else
    return static_cast<int64_t>(v);
  }
// result type of a mixed operation must be double iff one operand is double (C16)
template<class A, class B, class R> constexpr bool result_type_ok =
  (std::is_same_v<A, double> || std::is_same_v<B, double>) ? std::is_same_v<R, double> : std::is_same_v<R, fixed_t>;
}

#if defined(VERIF_UMBRELLA)
#define VERIF_A2F(x) make_fixed(x)
#else
#define VERIF_A2F(x) arithmetic_to_fixed(x)
#endif
#if !defined(VERIF_KERNELS_ONLY)
struct w_entry { const char * name; int64_t (*fn)(int64_t, int64_t); };
#endif

// Every entry point is a kernel k_<name>(a,b) plus an extern "C" forwarder w_<name>. Kernels are constexpr function
// templates (checked lazily), so the constant-evaluator arm can include this file with VERIF_KERNELS_ONLY and force
// k_<name><>(a,b) into a static_assert; W_RT marks entry points that are run-time only by design (compiled table
// functions, the stream operator, detail::sqrt_std_math).
#if defined(VERIF_KERNELS_ONLY)
#define W(name) template<int = 0> constexpr int64_t k_##name(int64_t a, int64_t b)
#define W_RT(name) template<int = 0> inline int64_t k_##name(int64_t a, int64_t b)
#else
#define W(name) template<int = 0> constexpr int64_t k_##name(int64_t a, int64_t b); \
  extern "C" int64_t w_##name(int64_t a, int64_t b) { return k_##name<>(a, b); } \
  template<int> constexpr int64_t k_##name(int64_t a, int64_t b)
#define W_RT(name) template<int = 0> inline int64_t k_##name(int64_t a, int64_t b); \
  extern "C" int64_t w_##name(int64_t a, int64_t b) { return k_##name<>(a, b); } \
  template<int> inline int64_t k_##name(int64_t a, int64_t b)
#endif
#define UNUSED_B (void)b

// ---------------------------------------------------------------- fixed x fixed
W(add_ff) { return (as_fixed(a) + as_fixed(b)).v; }
W(sub_ff) { return (as_fixed(a) - as_fixed(b)).v; }
W(mul_ff) { return (as_fixed(a) * as_fixed(b)).v; }
W(div_ff) { return (as_fixed(a) / as_fixed(b)).v; }
W(addeq_ff) { fixed_t x{as_fixed(a)}; x += as_fixed(b); return x.v; }
W(subeq_ff) { fixed_t x{as_fixed(a)}; x -= as_fixed(b); return x.v; }
W(muleq_ff) { fixed_t x{as_fixed(a)}; x *= as_fixed(b); return x.v; }
W(diveq_ff) { fixed_t x{as_fixed(a)}; x /= as_fixed(b); return x.v; }
W(fn_add_ff) { return fixed_addition(as_fixed(a), as_fixed(b)).v; }
W(fn_sub_ff) { return fixed_substract(as_fixed(a), as_fixed(b)).v; }
W(fn_mul_ff) { return fixed_multiply(as_fixed(a), as_fixed(b)).v; }
W(fn_div_ff) { return fixed_division(as_fixed(a), as_fixed(b)).v; }

// ---------------------------------------------------------------- call-site shapes (C01, C08, C17)
// operands proven positive / negative before the inlined operator
W(add_g_pp) { if(!(a > 0 && b > 0)) return 0; return (as_fixed(a) + as_fixed(b)).v; }
W(add_g_nn) { if(!(a < 0 && b < 0)) return 0; return (as_fixed(a) + as_fixed(b)).v; }
W(sub_g_pn) { if(!(a > 0 && b < 0)) return 0; return (as_fixed(a) - as_fixed(b)).v; }
W(sub_g_np) { if(!(a < 0 && b > 0)) return 0; return (as_fixed(a) - as_fixed(b)).v; }
W(addeq_g_pp) { if(!(a > 0 && b > 0)) return 0; fixed_t x{as_fixed(a)}; x += as_fixed(b); return x.v; }
W(subeq_g_np) { if(!(a < 0 && b > 0)) return 0; fixed_t x{as_fixed(a)}; x -= as_fixed(b); return x.v; }
// the guard is written on fixed_t values, the way user code would
W(add_gf_pp) { fixed_t x{as_fixed(a)}, y{as_fixed(b)}; if(!(x > 0_fix && y > 0_fix)) return 0; return (x + y).v; }
W(sub_gf_np) { fixed_t x{as_fixed(a)}, y{as_fixed(b)}; if(!(x < 0_fix && y > 0_fix)) return 0; return (x - y).v; }
// result consumed by isnan only (user idiom: if( isnan(a+b) ) ...)
W(add_isnan_pp) { if(!(a > 0 && b > 0)) return 0; return isnan(as_fixed(a) + as_fixed(b)) ? 1 : 0; }
W(sub_isnan_np) { if(!(a < 0 && b > 0)) return 0; return isnan(as_fixed(a) - as_fixed(b)) ? 1 : 0; }
W(add_isnan) { return isnan(as_fixed(a) + as_fixed(b)) ? 1 : 0; }
W(sub_isnan) { return isnan(as_fixed(a) - as_fixed(b)) ? 1 : 0; }
// one operand a compile-time constant
#define CONST_SHAPES(tag, K) \
  W(add_c_##tag) { UNUSED_B; return (as_fixed(a) + as_fixed(K)).v; } \
  W(add_cl_##tag) { UNUSED_B; return (as_fixed(K) + as_fixed(a)).v; } \
  W(sub_c_##tag) { UNUSED_B; return (as_fixed(a) - as_fixed(K)).v; } \
  W(sub_cl_##tag) { UNUSED_B; return (as_fixed(K) - as_fixed(a)).v; } \
  W(addeq_c_##tag) { UNUSED_B; fixed_t x{as_fixed(a)}; x += as_fixed(K); return x.v; } \
  W(subeq_c_##tag) { UNUSED_B; fixed_t x{as_fixed(a)}; x -= as_fixed(K); return x.v; }
CONST_SHAPES(max, 0x7ffffffffffffffell)
CONST_SHAPES(low, -0x7ffffffffffffffell)
CONST_SHAPES(p1, 1ll)
CONST_SHAPES(m1, -1ll)
CONST_SHAPES(p2, 2ll)
CONST_SHAPES(m2, -2ll)
CONST_SHAPES(big, 0x7ffffffffffffff0ll)
CONST_SHAPES(mbig, -0x7ffffffffffffff0ll)
CONST_SHAPES(p62, (1ll << 62))
CONST_SHAPES(m62, -(1ll << 62))
CONST_SHAPES(one, 65536ll)
CONST_SHAPES(p47, (1ll << 47))
// integer operand a compile-time constant (literal multiplier / divisor at the call site)
#define KSCALAR_SHAPES(tag, T, K) \
  W(mul_k_##tag) { UNUSED_B; return (as_fixed(a) * static_cast<T>(K)).v; } \
  W(kmul_##tag) { UNUSED_B; return (static_cast<T>(K) * as_fixed(a)).v; } \
  W(muleq_k_##tag) { UNUSED_B; fixed_t x{as_fixed(a)}; x *= static_cast<T>(K); return x.v; } \
  W(div_k_##tag) { UNUSED_B; return (as_fixed(a) / static_cast<T>(K)).v; } \
  W(diveq_k_##tag) { UNUSED_B; fixed_t x{as_fixed(a)}; x /= static_cast<T>(K); return x.v; }
KSCALAR_SHAPES(i2, int, 2)
KSCALAR_SHAPES(i3, int, 3)
KSCALAR_SHAPES(i4, int, 4)
KSCALAR_SHAPES(im1, int, -1)
KSCALAR_SHAPES(i0, int, 0)
KSCALAR_SHAPES(i65536, int, 65536)
KSCALAR_SHAPES(l2p20, int64_t, (int64_t(1) << 20))
KSCALAR_SHAPES(u16_8, uint16_t, 8)
KSCALAR_SHAPES(lprime, int64_t, 1000000007ll)
KSCALAR_SHAPES(u64big, uint64_t, 0x8000000000000001ull)
// s += a, n times (n = b, 0..64)
W(add_accum) { fixed_t s{as_fixed(a)}; for(int64_t i = 0; i < b; ++i) s += as_fixed(a); return s.v; }
W(sub_accum) { fixed_t s{as_fixed(a)}; for(int64_t i = 0; i < b; ++i) s -= as_fixed(-a); return s.v; }
// aliased compound assignment: both operands are the same object (x += x, or through two references to one object)
namespace { template<class L, class R> constexpr void acc_add(L & l, R const & r) { l += r; } template<class L, class R> constexpr void acc_sub(L & l, R const & r) { l -= r; }
            template<class L, class R> constexpr void acc_mul(L & l, R const & r) { l *= r; } template<class L, class R> constexpr void acc_div(L & l, R const & r) { l /= r; } }
W(addeq_self) { UNUSED_B; fixed_t x{as_fixed(a)}; x += x; return x.v; }
W(subeq_self) { UNUSED_B; fixed_t x{as_fixed(a)}; x -= x; return x.v; }
W(muleq_self) { UNUSED_B; fixed_t x{as_fixed(a)}; x *= x; return x.v; }
W(diveq_self) { UNUSED_B; fixed_t x{as_fixed(a)}; x /= x; return x.v; }
W(addeq_ref_self) { UNUSED_B; fixed_t x{as_fixed(a)}; acc_add(x, x); return x.v; }
W(subeq_ref_self) { UNUSED_B; fixed_t x{as_fixed(a)}; acc_sub(x, x); return x.v; }
W(muleq_ref_self) { UNUSED_B; fixed_t x{as_fixed(a)}; acc_mul(x, x); return x.v; }
W(diveq_ref_self) { UNUSED_B; fixed_t x{as_fixed(a)}; acc_div(x, x); return x.v; }
// stateful shapes: the same operation twice in one function with an operand object modified in between; the wrapper
// returns the SECOND result (argument b2 = b ^ 0x5a5a), the first one is kept alive through a volatile sink. A wrong
// [[gnu::const]]/[[gnu::pure]] on a function that reads through a reference or `this` lets an optimiser reuse the first result.
namespace { thread_local volatile int64_t verif_sink; } // thread-local: the wrappers are called from many threads at once
#define REASSIGN_BIN(name, op) \
  W_RT(name##_reassign) { fixed_t p{as_fixed(a)}, s{as_fixed(b)}; fixed_t r1 = p op s; verif_sink = r1.v; s = as_fixed(b ^ 0x5a5a); fixed_t r2 = p op s; return r2.v; } \
  W_RT(name##_reassign_l) { fixed_t p{as_fixed(a)}, s{as_fixed(b)}; fixed_t r1 = p op s; verif_sink = r1.v; p = as_fixed(a ^ 0x5a5a); fixed_t r2 = p op s; return r2.v; }
REASSIGN_BIN(add, +)
REASSIGN_BIN(sub, -)
REASSIGN_BIN(mul, *)
REASSIGN_BIN(div, /)
#define REASSIGN_UN(name, expr) \
  W_RT(name##_reassign) { UNUSED_B; fixed_t x{as_fixed(a)}; auto r1 = expr; verif_sink = ret(r1); x = as_fixed(a ^ 0x5a5a); auto r2 = expr; return ret(r2); }
REASSIGN_UN(cast_i32, static_cast<int32_t>(x))
REASSIGN_UN(cast_i64, static_cast<int64_t>(x))
REASSIGN_UN(cast_u16, static_cast<uint16_t>(x))
REASSIGN_UN(cast_f64, static_cast<double>(x))
REASSIGN_UN(cast_f32, static_cast<float>(x))
REASSIGN_UN(neg, -x)
REASSIGN_UN(abs, abs(x))
REASSIGN_UN(isnan, isnan(x))
REASSIGN_UN(sin, sin(x))
REASSIGN_UN(sqrt, sqrt(x))
REASSIGN_UN(floor, floor(x))
REASSIGN_UN(ceil, ceil(x))
// (a+b)-b in one expression (C17), the optimiser sees both operations
W(add_sub_back) { return ((as_fixed(a) + as_fixed(b)) - as_fixed(b)).v; }
W(sub_add_back) { return ((as_fixed(a) - as_fixed(b)) + as_fixed(b)).v; }

// ---------------------------------------------------------------- unary, comparisons, bit operations
W(neg) { UNUSED_B; return (-as_fixed(a)).v; }
W(abs) { UNUSED_B; return abs(as_fixed(a)).v; }
W(isnan) { UNUSED_B; return isnan(as_fixed(a)) ? 1 : 0; }
W(cmp_lt) { return as_fixed(a) < as_fixed(b); }
W(cmp_le) { return as_fixed(a) <= as_fixed(b); }
W(cmp_gt) { return as_fixed(a) > as_fixed(b); }
W(cmp_ge) { return as_fixed(a) >= as_fixed(b); }
W(cmp_eq) { return as_fixed(a) == as_fixed(b); }
W(cmp_ne) { return as_fixed(a) != as_fixed(b); }
W(shl) { return (as_fixed(a) << static_cast<int>(b)).v; }
W(shr) { return (as_fixed(a) >> static_cast<int>(b)).v; }
W(and_) { return (as_fixed(a) & as_fixed(b)).v; }
// shift counts of other static types than int (the operators are declared for int; these convert implicitly)
W(shl_u32) { return (as_fixed(a) << static_cast<unsigned>(b)).v; }
W(shr_u32) { return (as_fixed(a) >> static_cast<unsigned>(b)).v; }
W(shl_u8) { return (as_fixed(a) << static_cast<uint8_t>(b)).v; }
W(shr_u8) { return (as_fixed(a) >> static_cast<uint8_t>(b)).v; }
W(shl_sz) { return (as_fixed(a) << static_cast<std::size_t>(b)).v; }
W(shr_sz) { return (as_fixed(a) >> static_cast<std::size_t>(b)).v; }
W(shl_i64) { return (as_fixed(a) << b).v; }
W(shr_i64) { return (as_fixed(a) >> b).v; }
W(shl_i16) { return (as_fixed(a) << static_cast<short>(b)).v; }
W(shr_i16) { return (as_fixed(a) >> static_cast<short>(b)).v; }
W(ceil) { UNUSED_B; return ceil(as_fixed(a)).v; }
W(floor) { UNUSED_B; return floor(as_fixed(a)).v; }
W(limits_max) { (void)a; UNUSED_B; return std::numeric_limits<fixed_t>::max().v; }
W(limits_lowest) { (void)a; UNUSED_B; return std::numeric_limits<fixed_t>::lowest().v; }
W(limits_nan) { (void)a; UNUSED_B; return std::numeric_limits<fixed_t>::quiet_NaN().v; }
W(limits_one) { (void)a; UNUSED_B; return std::numeric_limits<fixed_t>::one().v; }
W(const_phi) { (void)a; UNUSED_B; return phi.v; }
W(const_pidiv2) { (void)a; UNUSED_B; return fixpidiv2.v; }

// ---------------------------------------------------------------- sqrt family, transcendental
W(sqrt) { UNUSED_B; return sqrt(as_fixed(a)).v; }
W(sqrt_abacus) { UNUSED_B; return detail::sqrt_abacus(as_fixed(a)).v; }
W_RT(sqrt_std_math) { UNUSED_B; return detail::sqrt_std_math(as_fixed(a)).v; }
W(hypot) { return hypot(as_fixed(a), as_fixed(b)).v; }
W(sin) { UNUSED_B; return sin(as_fixed(a)).v; }
W(cos) { UNUSED_B; return cos(as_fixed(a)).v; }
W(tan) { UNUSED_B; return tan(as_fixed(a)).v; }
W(atan) { UNUSED_B; return atan(as_fixed(a)).v; }
W(atan2) { return atan2(as_fixed(a), as_fixed(b)).v; }
W(asin) { UNUSED_B; return asin(as_fixed(a)).v; }
W(acos) { UNUSED_B; return acos(as_fixed(a)).v; }
W(sqrt_constexpr_available) { (void)a; UNUSED_B; return sqrt_constexpr_available ? 1 : 0; }
W(cplusplus) { (void)a; UNUSED_B; return __cplusplus; }

// ---------------------------------------------------------------- compiled table functions
W_RT(sin_angle_aprox) { UNUSED_B; return sin_angle_aprox(static_cast<int32_t>(a)).v; }
W_RT(cos_angle_aprox) { UNUSED_B; return cos_angle_aprox(static_cast<int32_t>(a)).v; }
// the same entry points called with an argument object of a narrower static type than the declared parameter
#define ANGLE_APROX_T(tag, T) \
  W_RT(sin_angle_aprox_##tag) { UNUSED_B; T const d{ static_cast<T>(a) }; return sin_angle_aprox(d).v; } \
  W_RT(cos_angle_aprox_##tag) { UNUSED_B; T const d{ static_cast<T>(a) }; return cos_angle_aprox(d).v; }
ANGLE_APROX_T(i8, int8_t) ANGLE_APROX_T(i16, int16_t) ANGLE_APROX_T(u8, uint8_t) ANGLE_APROX_T(u16, uint16_t)
W_RT(sin_angle_tab_u8) { UNUSED_B; uint8_t const i{ static_cast<uint8_t>(a) }; return sin_angle_tab(i).v; }
W_RT(cos_angle_tab_u8) { UNUSED_B; uint8_t const i{ static_cast<uint8_t>(a) }; return cos_angle_tab(i).v; }
W_RT(sqrt_aprox) { UNUSED_B; return sqrt_aprox(as_fixed(a)).v; }
W_RT(hypot_aprox) { return hypot_aprox(as_fixed(a), as_fixed(b)).v; }
W_RT(atan_index_aprox) { UNUSED_B; return atan_index_aprox(as_fixed(a)).v; }
W_RT(atan_aprox) { UNUSED_B; return atan_aprox(as_fixed(a)).v; }
W_RT(sin_angle_tab) { UNUSED_B; return sin_angle_tab(static_cast<uint16_t>(a)).v; }
W_RT(cos_angle_tab) { UNUSED_B; return cos_angle_tab(static_cast<uint16_t>(a)).v; }
W_RT(tan_tab) { UNUSED_B; return tan_tab(static_cast<uint8_t>(a)).v; }
W_RT(square_root_tab) { UNUSED_B; return square_root_tab(static_cast<uint8_t>(a)); }

// ---------------------------------------------------------------- calls made during static initialisation
// The compiled table functions are called from the constructor of a namespace-scope object of THIS translation unit,
// which is linked before fixed_math.cc, i.e. before the library's own dynamic initialisers (if it ever gets any) run.
// sinit_<fn>(i) returns what the call returned then; the monitor compares it with the same call made now.
#if !defined(VERIF_KERNELS_ONLY)
namespace {
constexpr int64_t SINIT_ARGS[12] = { 0, 1, 65536, -65536, 30 * 65536, -45, 45, 360, 123456789, -987654321, 400, 200000 };
struct sinit_probe
  {
  int64_t sin_ap[12], cos_ap[12], sqrt_ap[12], hyp_ap[12], atan_ix[12], sin_tab[12], tan_tb[12], sq_tb[12];
  sinit_probe() noexcept
    {
    for(int i = 0; i < 12; ++i)
      {
      int64_t x = SINIT_ARGS[i];
      sin_ap[i] = sin_angle_aprox(static_cast<int32_t>(x)).v; cos_ap[i] = cos_angle_aprox(static_cast<int32_t>(x)).v;
      sqrt_ap[i] = sqrt_aprox(as_fixed(x)).v; hyp_ap[i] = hypot_aprox(as_fixed(x), as_fixed(SINIT_ARGS[(i + 5) % 12])).v;
      atan_ix[i] = atan_index_aprox(as_fixed(x)).v; sin_tab[i] = sin_angle_tab(static_cast<uint16_t>((x < 0 ? -x : x) % 361)).v;
      tan_tb[i] = tan_tab(static_cast<uint8_t>(x)).v; sq_tb[i] = square_root_tab(static_cast<uint8_t>(x));
      }
    }
  };
#if defined(VERIF_SINIT_LAZY)
// sanitizer / fuzz builds: the probe runs at the first sinit_* call (inside the forked child of that entry point), so that a
// report it provokes neither aborts the process before main nor uses up the sanitizer's per-site de-duplication
inline const sinit_probe & sinit() { static const sinit_probe p; return p; }
#else
const sinit_probe g_sinit;
inline const sinit_probe & sinit() { return g_sinit; }
#endif
}
#define SINIT_ENTRY(name, field, now) \
  W_RT(sinit_##name) { UNUSED_B; return sinit().field[static_cast<size_t>(a) % 12]; } \
  W_RT(snow_##name) { UNUSED_B; int i = static_cast<int>(static_cast<size_t>(a) % 12); int64_t x = SINIT_ARGS[i]; (void)x; return now; }
SINIT_ENTRY(sin_angle_aprox, sin_ap, sin_angle_aprox(static_cast<int32_t>(x)).v)
SINIT_ENTRY(cos_angle_aprox, cos_ap, cos_angle_aprox(static_cast<int32_t>(x)).v)
SINIT_ENTRY(sqrt_aprox, sqrt_ap, sqrt_aprox(as_fixed(x)).v)
SINIT_ENTRY(hypot_aprox, hyp_ap, hypot_aprox(as_fixed(x), as_fixed(SINIT_ARGS[(i + 5) % 12])).v)
SINIT_ENTRY(atan_index_aprox, atan_ix, atan_index_aprox(as_fixed(x)).v)
SINIT_ENTRY(sin_angle_tab, sin_tab, sin_angle_tab(static_cast<uint16_t>((x < 0 ? -x : x) % 361)).v)
SINIT_ENTRY(tan_tab, tan_tb, tan_tab(static_cast<uint8_t>(x)).v)
SINIT_ENTRY(square_root_tab, sq_tb, square_root_tab(static_cast<uint8_t>(x)))
#endif

// ---------------------------------------------------------------- literals, stream
W(udl_int) { UNUSED_B; return fixedmath::operator""_fix(static_cast<unsigned long long>(a)).v; }
W(udl_float) { UNUSED_B; return fixedmath::operator""_fix(static_cast<long double>(arg<double>(a))).v; }
W_RT(ostream) { UNUSED_B; std::ostringstream s; s << as_fixed(a); std::string t = s.str();
  uint64_t h = 1469598103934665603ull; for(unsigned char c : t) { h ^= c; h *= 1099511628211ull; } return static_cast<int64_t>(h); }

// ---------------------------------------------------------------- per scalar type: conversions and mixed operators
// operand order suffix: fT = fixed op T, Tf = T op fixed. First wrapper argument is always the fixed raw value.
#define MIXED_OP(opname, op, T, tag) \
  W(opname##_f##tag) { auto r = as_fixed(a) op arg<T>(b); static_assert(result_type_ok<fixed_t, T, decltype(r)>); return ret(r); } \
  W(opname##_##tag##f) { auto r = arg<T>(b) op as_fixed(a); static_assert(result_type_ok<T, fixed_t, decltype(r)>); return ret(r); }
#define MIXED_EQ(opname, op, T, tag) \
  W(opname##eq_f##tag) { fixed_t x{as_fixed(a)}; x op arg<T>(b); return x.v; }

#define CONV_COMMON(T, tag) \
  W(ctor_##tag) { UNUSED_B; return fixed_t{arg<T>(a)}.v; } \
  W(a2f_##tag) { UNUSED_B; return VERIF_A2F(arg<T>(a)).v; } \
  W(mkf_##tag) { UNUSED_B; return make_fixed(arg<T>(a)).v; } \
  W(cast_##tag) { UNUSED_B; return ret(static_cast<T>(as_fixed(a))); } \
  W(f2a_##tag) { UNUSED_B; return ret(fixed_to_arithmetic<T>(as_fixed(a))); } \
  W(sin_angle_##tag) { UNUSED_B; return sin_angle(arg<T>(a)).v; } \
  W(cos_angle_##tag) { UNUSED_B; return cos_angle(arg<T>(a)).v; } \
  W(tan_angle_##tag) { UNUSED_B; return tan_angle(arg<T>(a)).v; } \
  MIXED_OP(add, +, T, tag) MIXED_OP(sub, -, T, tag) MIXED_OP(mul, *, T, tag) MIXED_OP(div, /, T, tag)

#define INT_TYPE(T, tag) \
  CONV_COMMON(T, tag) \
  W(i2f_##tag) { UNUSED_B; return integral_to_fixed(arg<T>(a)).v; } \
  W(f2i_##tag) { UNUSED_B; return ret(fixed_to_integral<T>(as_fixed(a))); } \
  W(a2r_##tag) { UNUSED_B; return angle_to_radians(arg<T>(a)).v; } \
  MIXED_EQ(add, +=, T, tag) MIXED_EQ(sub, -=, T, tag) MIXED_EQ(mul, *=, T, tag) MIXED_EQ(div, /=, T, tag)

INT_TYPE(int8_t, i8)
INT_TYPE(int16_t, i16)
INT_TYPE(int32_t, i32)
INT_TYPE(int64_t, i64)
INT_TYPE(uint8_t, u8)
INT_TYPE(uint16_t, u16)
INT_TYPE(uint32_t, u32)
INT_TYPE(uint64_t, u64)
// long long / unsigned long long are distinct types from int64_t / uint64_t (= long / unsigned long on LP64)
INT_TYPE(long long, ll)
INT_TYPE(unsigned long long, ull)

// (fixed * __int128 is ill-formed - brace narrowing in fixed_multiply_scalar - so only /, +, conversion are wrapped)
// __int128: an integral type for the library only in GNU dialects (std::is_integral_v<__int128> is false under
// __STRICT_ANSI__). The operand is encoded in the second wrapper argument: n = (b >> 8) * 2^(b & 0x7f), shift <= 70.
#if defined(__SIZEOF_INT128__) && !defined(__STRICT_ANSI__)
#define VERIF_HAVE_I128 1
namespace { constexpr __int128 arg_i128(int64_t b) noexcept { int sh = static_cast<int>(b & 0x7f); if(sh > 70) sh = 70; return static_cast<__int128>(b >> 8) * (static_cast<__int128>(1) << sh); } }
W(i128_supported) { (void)a; UNUSED_B; return 1; }
W(a2r_i128) { return angle_to_radians(arg_i128(b) + a).v; } // angle = (b >> 8) * 2^(b & 0x7f) + a
W(div_fi128) { return (as_fixed(a) / arg_i128(b)).v; }
W(diveq_fi128) { fixed_t x{as_fixed(a)}; x /= arg_i128(b); return x.v; }
W(add_fi128) { return (as_fixed(a) + arg_i128(b)).v; }
W(ctor_i128) { (void)a; return fixed_t{arg_i128(b)}.v; }
#else
W(i128_supported) { (void)a; UNUSED_B; return 0; }
W(a2r_i128) { (void)a; UNUSED_B; return 0; }
W(div_fi128) { (void)a; UNUSED_B; return 0; }
W(diveq_fi128) { (void)a; UNUSED_B; return 0; }
W(add_fi128) { (void)a; UNUSED_B; return 0; }
W(ctor_i128) { (void)a; UNUSED_B; return 0; }
#endif

// float: everything incl. compound assignment
CONV_COMMON(float, f32)
W(fp2f_f32) { UNUSED_B; return floating_point_to_fixed(arg<float>(a)).v; }
W(f2fp_f32) { UNUSED_B; return ret(fixed_to_floating_point<float>(as_fixed(a))); }
MIXED_EQ(add, +=, float, f32) MIXED_EQ(sub, -=, float, f32) MIXED_EQ(mul, *=, float, f32) MIXED_EQ(div, /=, float, f32)

// double: `a op= double` is ill-formed on the pinned tree (fixed_t = double needs an explicit conversion) and
// *_angle(double) does not compile; only conversions and the four binary operators exist.
W(ctor_f64) { UNUSED_B; return fixed_t{arg<double>(a)}.v; }
W(a2f_f64) { UNUSED_B; return VERIF_A2F(arg<double>(a)).v; }
W(mkf_f64) { UNUSED_B; return make_fixed(arg<double>(a)).v; }
W(cast_f64) { UNUSED_B; return ret(static_cast<double>(as_fixed(a))); }
W(f2a_f64) { UNUSED_B; return ret(fixed_to_arithmetic<double>(as_fixed(a))); }
W(fp2f_f64) { UNUSED_B; return floating_point_to_fixed(arg<double>(a)).v; }
W(f2fp_f64) { UNUSED_B; return ret(fixed_to_floating_point<double>(as_fixed(a))); }
MIXED_OP(add, +, double, f64) MIXED_OP(sub, -, double, f64) MIXED_OP(mul, *, double, f64) MIXED_OP(div, /, double, f64)
// fixed_t carrier for the *_angle helpers
W(sin_angle_fix) { UNUSED_B; return sin_angle(as_fixed(a)).v; }
W(cos_angle_fix) { UNUSED_B; return cos_angle(as_fixed(a)).v; }
W(tan_angle_fix) { UNUSED_B; return tan_angle(as_fixed(a)).v; }
// round trip helpers (C04, C05): executed entirely inside the configuration
W(rt_f64) { UNUSED_B; return fixed_t{static_cast<double>(as_fixed(a))}.v; }
W(rt_f32) { UNUSED_B; return fixed_t{static_cast<float>(as_fixed(a))}.v; }

// ---------------------------------------------------------------- registry
#if !defined(VERIF_KERNELS_ONLY)
#define E(name) { #name, &w_##name },
#define E_CONST(tag) E(add_c_##tag) E(add_cl_##tag) E(sub_c_##tag) E(sub_cl_##tag) E(addeq_c_##tag) E(subeq_c_##tag)
#define E_KSCALAR(tag) E(mul_k_##tag) E(kmul_##tag) E(muleq_k_##tag) E(div_k_##tag) E(diveq_k_##tag)
#define E_MIXED(tag) E(add_f##tag) E(add_##tag##f) E(sub_f##tag) E(sub_##tag##f) E(mul_f##tag) E(mul_##tag##f) E(div_f##tag) E(div_##tag##f)
#define E_EQ(tag) E(addeq_f##tag) E(subeq_f##tag) E(muleq_f##tag) E(diveq_f##tag)
#define E_COMMON(tag) E(ctor_##tag) E(a2f_##tag) E(mkf_##tag) E(cast_##tag) E(f2a_##tag) E(sin_angle_##tag) E(cos_angle_##tag) E(tan_angle_##tag) E_MIXED(tag)
#define E_INT(tag) E_COMMON(tag) E(i2f_##tag) E(f2i_##tag) E(a2r_##tag) E_EQ(tag)

extern "C" const w_entry w_entries[] = {
  E(add_ff) E(sub_ff) E(mul_ff) E(div_ff) E(addeq_ff) E(subeq_ff) E(muleq_ff) E(diveq_ff)
  E(fn_add_ff) E(fn_sub_ff) E(fn_mul_ff) E(fn_div_ff)
  E(add_g_pp) E(add_g_nn) E(sub_g_pn) E(sub_g_np) E(addeq_g_pp) E(subeq_g_np) E(add_gf_pp) E(sub_gf_np)
  E(add_isnan_pp) E(sub_isnan_np) E(add_isnan) E(sub_isnan)
  E_CONST(max) E_CONST(low) E_CONST(p1) E_CONST(m1) E_CONST(p2) E_CONST(m2) E_CONST(big) E_CONST(mbig)
  E_CONST(p62) E_CONST(m62) E_CONST(one) E_CONST(p47)
  E(add_accum) E(sub_accum) E(add_sub_back) E(sub_add_back)
  E(add_reassign) E(add_reassign_l) E(sub_reassign) E(sub_reassign_l) E(mul_reassign) E(mul_reassign_l) E(div_reassign) E(div_reassign_l)
  E(cast_i32_reassign) E(cast_i64_reassign) E(cast_u16_reassign) E(cast_f64_reassign) E(cast_f32_reassign) E(neg_reassign) E(abs_reassign) E(isnan_reassign)
  E(sin_reassign) E(sqrt_reassign) E(floor_reassign) E(ceil_reassign)
  E_KSCALAR(i2) E_KSCALAR(i3) E_KSCALAR(i4) E_KSCALAR(im1) E_KSCALAR(i0) E_KSCALAR(i65536) E_KSCALAR(l2p20) E_KSCALAR(u16_8) E_KSCALAR(lprime) E_KSCALAR(u64big)
  E(addeq_self) E(subeq_self) E(muleq_self) E(diveq_self) E(addeq_ref_self) E(subeq_ref_self) E(muleq_ref_self) E(diveq_ref_self)
  E(neg) E(abs) E(isnan) E(cmp_lt) E(cmp_le) E(cmp_gt) E(cmp_ge) E(cmp_eq) E(cmp_ne)
  E(shl) E(shr) E(and_) E(shl_u32) E(shr_u32) E(shl_u8) E(shr_u8) E(shl_sz) E(shr_sz) E(shl_i64) E(shr_i64) E(shl_i16) E(shr_i16) E(ceil) E(floor)
  E(limits_max) E(limits_lowest) E(limits_nan) E(limits_one) E(const_phi) E(const_pidiv2)
  E(sqrt) E(sqrt_abacus) E(sqrt_std_math) E(hypot)
  E(sin) E(cos) E(tan) E(atan) E(atan2) E(asin) E(acos) E(sqrt_constexpr_available) E(cplusplus)
  E(sin_angle_aprox) E(cos_angle_aprox) E(sqrt_aprox) E(hypot_aprox) E(atan_index_aprox) E(atan_aprox)
  E(sin_angle_tab) E(cos_angle_tab) E(tan_tab) E(square_root_tab)
#define E_ANGLE_APROX_T(tag) E(sin_angle_aprox_##tag) E(cos_angle_aprox_##tag)
  E_ANGLE_APROX_T(i8) E_ANGLE_APROX_T(i16) E_ANGLE_APROX_T(u8) E_ANGLE_APROX_T(u16) E(sin_angle_tab_u8) E(cos_angle_tab_u8)
  E(udl_int) E(udl_float) E(ostream)
#define E_SINIT(n) E(sinit_##n) E(snow_##n)
  E_SINIT(sin_angle_aprox) E_SINIT(cos_angle_aprox) E_SINIT(sqrt_aprox) E_SINIT(hypot_aprox) E_SINIT(atan_index_aprox) E_SINIT(sin_angle_tab) E_SINIT(tan_tab) E_SINIT(square_root_tab)
  E(i128_supported) E(a2r_i128) E(div_fi128) E(diveq_fi128) E(add_fi128) E(ctor_i128)
  E_INT(i8) E_INT(i16) E_INT(i32) E_INT(i64) E_INT(u8) E_INT(u16) E_INT(u32) E_INT(u64) E_INT(ll) E_INT(ull)
  E_COMMON(f32) E(fp2f_f32) E(f2fp_f32) E_EQ(f32)
  E(ctor_f64) E(a2f_f64) E(mkf_f64) E(cast_f64) E(f2a_f64) E(fp2f_f64) E(f2fp_f64) E_MIXED(f64)
  E(sin_angle_fix) E(cos_angle_fix) E(tan_angle_fix) E(rt_f64) E(rt_f32)
  { nullptr, nullptr }
};
extern "C" const char * w_cfg() { return VERIF_CFG; }
#endif

// Sanitizer driver (C07, corroboration for the arithmetic properties).
// Linked with wrappers.cc + fixed_math.cc compiled with -fsanitize=address,undefined (report build) or with
// trapping UBSan (trap build). One forked child per entry point, from a parent that has executed no library
// code, so that UBSan's per-site de-duplication starts clean for every entry point and every report can be
// attributed to the entry point and to the arguments that triggered it.
//
//   san_driver <worker> <nworkers> <seed> <random_calls_per_entry> <mode: report|trap> [only-entry]
// Output (stdout), one event per line:
//   EV ubsan entry=<e> kind=<k> file=<f> line=<n> col=<n> a=<int> b=<int>
//   EV asan entry=<e> desc=<bug type> a=<int> b=<int>
//   EV signal entry=<e> sig=<name> n=<count so far> a=<int> b=<int>
//   SUMMARY entry=<e> domain=<ka>,<kb> calls=<n> ubsan=<n> asan=<n> signals=<n> returned=<n>
//   DIED entry=<e> status=<wait status>
#include "monitor/core.h"
#include "monitor/gen.h"
#include <unistd.h>
#include <sys/wait.h>

struct w_entry { const char * name; fn2 fn; };
extern "C" const w_entry w_entries[];
extern "C" const char * w_cfg();

#if !defined(VERIF_SAN_TRAP) // trap builds link no sanitizer runtime: every failed check is a SIGILL caught by the signal guard
extern "C" void __ubsan_get_current_report_data(const char ** kind, const char ** msg, const char ** file, unsigned * line, unsigned * col, char ** addr);
#endif
extern "C" const char * __asan_get_report_description();

static const char * cur_entry = "";
static volatile int64_t cur_a, cur_b;
static long n_ubsan, n_asan, n_sig, n_calls, n_returned;
static sigjmp_buf jb;
static volatile sig_atomic_t armed;

#if !defined(VERIF_SAN_TRAP)
extern "C" void __ubsan_on_report(void)
  {
  const char * kind = "?", * msg = "", * file = "?"; unsigned line = 0, col = 0; char * addr = nullptr;
  __ubsan_get_current_report_data(&kind, &msg, &file, &line, &col, &addr);
  ++n_ubsan;
  const char * base = strrchr(file, '/'); base = base ? base + 1 : file;
  printf("EV ubsan entry=%s kind=%s file=%s line=%u col=%u a=%" PRId64 " b=%" PRId64 "\n", cur_entry, kind, base, line, col, (int64_t)cur_a, (int64_t)cur_b);
  fflush(stdout);
  }
#endif
#if defined(__SANITIZE_ADDRESS__)
#define HAVE_ASAN 1
#elif defined(__has_feature)
#if __has_feature(address_sanitizer)
#define HAVE_ASAN 1
#endif
#endif
#if defined(HAVE_ASAN)
extern "C" void __asan_on_error(void)
  {
  ++n_asan;
  if(n_asan <= 5) { printf("EV asan entry=%s desc=%s a=%" PRId64 " b=%" PRId64 "\n", cur_entry, __asan_get_report_description(), (int64_t)cur_a, (int64_t)cur_b); fflush(stdout); }
  }
#endif
static const char * signame(int s) { switch(s) { case SIGFPE: return "SIGFPE"; case SIGSEGV: return "SIGSEGV"; case SIGBUS: return "SIGBUS"; case SIGILL: return "SIGILL"; case SIGABRT: return "SIGABRT"; case SIGTRAP: return "SIGTRAP"; } return "SIG?"; }
static void on_signal(int s) { if(armed) { armed = 0; siglongjmp(jb, s); } _exit(70); }

static void one_call(fn2 f, int64_t a, int64_t b)
  {
  cur_a = a; cur_b = b; ++n_calls;
  int s = sigsetjmp(jb, 0);
  if(s == 0) { armed = 1; volatile int64_t r = f(a, b); (void)r; armed = 0; ++n_returned; }
  else
    {
    ++n_sig;
    if(n_sig <= 3 || (n_sig & (n_sig - 1)) == 0) { printf("EV signal entry=%s sig=%s n=%ld a=%" PRId64 " b=%" PRId64 "\n", cur_entry, signame(s), n_sig, a, b); fflush(stdout); }
    }
  }

static void drive(const w_entry & e, Domain d, uint64_t seed, long nrandom)
  {
  struct sigaction sa; memset(&sa, 0, sizeof sa); sa.sa_handler = on_signal; sa.sa_flags = SA_NODEFER;
  for(int s : { SIGFPE, SIGSEGV, SIGBUS, SIGILL, SIGABRT, SIGTRAP }) sigaction(s, &sa, nullptr);
  cur_entry = e.name;
  Rng r; r.seed(seed, strhash(e.name));
  const auto & A = boundary(d.a); const auto & B = boundary(d.b);
  // boundary values pairwise (complete cross product; for (fixed,fixed) that is ~8*10^5 pairs)
  for(int64_t a : A) for(int64_t b : B) one_call(e.fn, a, b);
  for(long i = 0; i < nrandom; ++i)
    {
    int64_t a = random_of_kind(r, d.a), b;
    if(d.a == K_FIX && d.b == K_FIX && (i & 1)) b = related_fix(r, a); else b = random_of_kind(r, d.b);
    if(d.b != K_NONE && d.b != K_FIX && (i & 7) == 0) a = A[r.below(A.size())];
    one_call(e.fn, a, b);
    }
  // int32 angles: a dense block as well (every remainder mod 360, both signs)
  if(d.a == K_ANGLE) for(int64_t x = -400000; x <= 400000; ++x) one_call(e.fn, x, 0);
  printf("SUMMARY entry=%s domain=%s,%s calls=%ld ubsan=%ld asan=%ld signals=%ld returned=%ld\n", e.name, kind_name(d.a), kind_name(d.b), n_calls, n_ubsan, n_asan, n_sig, n_returned);
  fflush(stdout);
  }

int main(int argc, char ** argv)
  {
  if(argc < 6) { fprintf(stderr, "usage: san_driver worker nworkers seed ncalls mode [entry]\n"); return 2; }
  int worker = atoi(argv[1]), nworkers = atoi(argv[2]); uint64_t seed = strtoull(argv[3], nullptr, 10); long ncalls = atol(argv[4]);
  const char * only = argc > 6 ? argv[6] : nullptr;
  printf("CFG %s mode=%s\n", w_cfg(), argv[5]);
  int idx = 0;
  for(const w_entry * e = w_entries; e->name; ++e)
    {
    Domain d;
    if(!entry_domain(e->name, d)) { printf("NODOMAIN entry=%s\n", e->name); continue; }
    if(only ? strcmp(only, e->name) != 0 : (idx++ % nworkers) != worker) continue;
    fflush(stdout);
    pid_t p = fork();
    if(p < 0) { perror("fork"); return 2; }
    if(p == 0) { drive(*e, d, seed, ncalls); _exit(0); }
    int st = 0; waitpid(p, &st, 0);
    if(!WIFEXITED(st) || WEXITSTATUS(st) != 0) { printf("DIED entry=%s status=%d\n", e->name, st); fflush(stdout); }
    }
  return 0;
  }

// Input generators shared by the value monitor and the sanitizer driver: boundary lattice, integer type
// descriptors, and the argument domain of every wrapper entry point (C07's quantifier).
#include "core.h"
#include "gen.h"
#include <mutex>
#include <set>

// ------------------------------------------------------------------------------------------ lattice
static std::vector<int64_t> build_lattice()
  {
  std::set<int64_t> s;
  auto add = [&](i128 v) { if(v >= RAW_LOWEST && v <= RAW_MAX) { s.insert((int64_t)v); } };
  auto pm = [&](i128 v) { add(v); add(-v); };
  pm(0);
  for(int j = 1; j <= 4; ++j) pm(j);
  for(int k = 0; k <= 62; ++k) { i128 p = (i128)1 << k; pm(p); pm(p - 1); pm(p + 1); }
  pm(((i128)1 << 63) - 2); pm(((i128)1 << 63) - 3);
  for(int n = 1; n <= 12; ++n) pm((i128)65536 * n);
  for(int n : { 16, 90, 100, 180, 255, 256, 360, 361, 1000, 32767, 32768, 65535, 65536 }) pm((i128)65536 * n);
  for(int j = 0; j <= 4; ++j) { add((i128)RAW_MAX - j); add((i128)RAW_LOWEST + j); }
  for(int j = -2; j <= 2; ++j) { pm(((i128)1 << 47) + j); pm(((i128)1 << 46) + j); pm(((i128)1 << 48) + j); pm(((i128)1 << 31) + j); pm(((i128)1 << 32) + j); pm(((i128)1 << 30) + j); }
  for(int j = -2; j <= 2; ++j) { pm((i128)2147483647 * 65536 + j); pm((i128)2147483648ll * 65536 + j); pm((i128)2147483646 * 65536 + j); }
  for(int64_t c : { PHI, PHI2, (int64_t)51472, TWO_PHI, (int64_t)411775, (int64_t)617662, (int64_t)68629, (int64_t)32768, (int64_t)39321, (int64_t)39322, (int64_t)28672, (int64_t)45056, (int64_t)77824, (int64_t)159744, (int64_t)57738456761160ll })
    for(int j = -1; j <= 1; ++j) pm(c + j);
  pm(3 * (i128)PHI2); pm(3 * (i128)PHI2 + 1); pm(5 * (i128)PHI2);
  // classic bit patterns (repeating bytes / nibbles, alternating bits, counting nibbles) and their neighbours
  for(uint64_t u : { 0x0101010101010101ull, 0x0f0f0f0f0f0f0f0full, 0x3333333333333333ull, 0x5555555555555555ull, 0x00ff00ff00ff00ffull, 0x0000ffff0000ffffull,
                     0x0123456789abcdefull, 0x7f7f7f7f7f7f7f7full, 0x1111111111111111ull, 0x2aaaaaaaaaaaaaaaull, 0x6666666666666666ull })
    for(int j = -2; j <= 2; ++j) { pm((i128)(int64_t)u + j); add((i128)(int64_t)~u + j); }
  return std::vector<int64_t>(s.begin(), s.end());
  }
const std::vector<int64_t> & lattice() { static std::vector<int64_t> l = build_lattice(); return l; }
const std::vector<int64_t> & lattice_small()
  {
  static std::vector<int64_t> l = [] {
    std::set<int64_t> s;
    auto pm = [&](i128 v) { if(v >= RAW_LOWEST && v <= RAW_MAX) { s.insert((int64_t)v); s.insert((int64_t)-v); } };
    pm(0); pm(1); pm(2); pm(3); pm(65535); pm(65536); pm(65537); pm(32768); pm(131072); pm(3 * 65536);
    for(int k : { 8, 15, 16, 17, 24, 30, 31, 32, 33, 40, 46, 47, 48, 55, 61, 62 }) { pm((i128)1 << k); pm(((i128)1 << k) - 1); }
    pm(RAW_MAX); pm(RAW_MAX - 1); pm((i128)2147483647 * 65536); pm(PHI); pm(PHI2);
    return std::vector<int64_t>(s.begin(), s.end()); }();
  return l;
  }
std::vector<int64_t> lattice_with(std::initializer_list<int64_t> extra)
  {
  std::vector<int64_t> l = lattice();
  for(int64_t e : extra) l.push_back(e);
  return l;
  }

const IntType INT_TYPES[N_INT] = {
  { "i8", true, 8, -128, 127 }, { "i16", true, 16, -32768, 32767 }, { "i32", true, 32, -(i128)2147483648ll, 2147483647 },
  { "i64", true, 64, (i128)INT64_MIN, (i128)INT64_MAX },
  { "u8", false, 8, 0, 255 }, { "u16", false, 16, 0, 65535 }, { "u32", false, 32, 0, 4294967295ll }, { "u64", false, 64, 0, (i128)UINT64_MAX },
  { "ll", true, 64, (i128)INT64_MIN, (i128)INT64_MAX }, { "ull", false, 64, 0, (i128)UINT64_MAX } };

int64_t random_of_type(Rng & r, const IntType & t)
  {
  i128 v;
  switch(r.below(8))
    {
    case 0: v = t.lo + (i128)r.below(4); break;
    case 1: v = t.hi - (i128)r.below(4); break;
    case 2: v = (i128)r.range(-4, 4); break;
    case 3: { int k = (int)r.below((uint64_t)t.bits); v = ((i128)1 << k) + (i128)r.range(-2, 2); if(r.next() & 1) v = -v; break; }
    case 4: v = (i128)2147483647 + (i128)r.range(-3, 3); if(r.next() & 1) v = -v; break;
    default: { int bits = 1 + (int)r.below((uint64_t)t.bits); u128 m = r.next(); if(bits < 64) m &= (((u128)1 << bits) - 1); v = (i128)m; if(t.is_signed && (r.next() & 1)) v = -v; break; }
    }
  if(v < t.lo) v = t.lo; if(v > t.hi) v = t.hi;
  return (int64_t)(uint64_t)(u128)v; // two's complement truncation: static_cast<T> in the wrapper restores v
  }


// ------------------------------------------------------------------------------------------ entry domains
static bool starts(const std::string & s, const char * p) { return s.rfind(p, 0) == 0; }
static bool ends(const std::string & s, const char * p) { size_t n = strlen(p); return s.size() >= n && s.compare(s.size() - n, n, p) == 0; }
static Kind kind_of_tag(const std::string & t)
  {
  static const std::map<std::string, Kind> m = { { "i8", K_I8 }, { "i16", K_I16 }, { "i32", K_I32 }, { "i64", K_I64 }, { "u8", K_U8 }, { "u16", K_U16 }, { "u32", K_U32 }, { "u64", K_U64 }, { "ll", K_LL }, { "ull", K_ULL }, { "f32", K_F32 }, { "f64", K_F64 }, { "fix", K_FIX } };
  auto it = m.find(t); return it == m.end() ? K_NONE : it->second;
  }
const char * kind_name(Kind k)
  {
  static const char * n[] = { "none", "fixed", "int8", "int16", "int32", "int64", "uint8", "uint16", "uint32", "uint64", "long-long", "unsigned-long-long", "float-bits", "double-bits", "shift-count", "int32-angle", "index<=360", "index<=255", "count<=64", "int128-encoded", "count<=63" };
  return n[k];
  }
bool entry_domain(const std::string & n, Domain & d)
  {
  static const std::set<std::string> none = { "limits_max", "limits_lowest", "limits_nan", "limits_one", "const_phi", "const_pidiv2", "sqrt_constexpr_available", "cplusplus" };
  static const std::set<std::string> unary_fix = { "neg", "abs", "isnan", "ceil", "floor", "sqrt", "sqrt_abacus", "sqrt_std_math", "sin", "cos", "tan", "atan", "asin", "acos", "sqrt_aprox", "atan_index_aprox", "atan_aprox", "ostream", "rt_f64", "rt_f32",
    "cast_i32_reassign", "cast_i64_reassign", "cast_u16_reassign", "cast_f64_reassign", "cast_f32_reassign", "neg_reassign", "abs_reassign", "isnan_reassign", "sin_reassign", "sqrt_reassign", "floor_reassign", "ceil_reassign",
    "addeq_self", "subeq_self", "muleq_self", "diveq_self", "addeq_ref_self", "subeq_ref_self", "muleq_ref_self", "diveq_ref_self" };
  static const std::set<std::string> binary_fix = { "cmp_lt", "cmp_le", "cmp_gt", "cmp_ge", "cmp_eq", "cmp_ne", "and_", "hypot", "atan2", "hypot_aprox", "add_sub_back", "sub_add_back", "add_reassign", "add_reassign_l", "sub_reassign", "sub_reassign_l", "mul_reassign", "mul_reassign_l", "div_reassign", "div_reassign_l", "add_isnan", "sub_isnan", "add_isnan_pp", "sub_isnan_np" };
  if(none.count(n)) { d = { K_NONE, K_NONE }; return true; }
  if(unary_fix.count(n)) { d = { K_FIX, K_NONE }; return true; }
  if(binary_fix.count(n)) { d = { K_FIX, K_FIX }; return true; }
  if(n == "shl" || n == "shr" || n == "shl_i64" || n == "shr_i64") { d = { K_FIX, K_SHIFT }; return true; }
  if(starts(n, "shl_") || starts(n, "shr_")) { d = { K_FIX, K_CNT63 }; return true; } // narrower / unsigned count types: counts 0..63
  if(starts(n, "sinit_") || starts(n, "snow_")) { d = { K_IDX256, K_NONE }; return true; }
  if(n == "a2r_i128") { d = { K_ANGLE, K_I128 }; return true; }
  if(n == "i128_supported") { d = { K_NONE, K_NONE }; return true; }
  if(n == "div_fi128" || n == "diveq_fi128" || n == "add_fi128" || n == "ctor_i128") { d = { K_FIX, K_I128 }; return true; }
  if(n == "add_accum" || n == "sub_accum") { d = { K_FIX, K_COUNT }; return true; }
  if(n == "sin_angle_aprox" || n == "cos_angle_aprox") { d = { K_ANGLE, K_NONE }; return true; }
  if(n == "sin_angle_tab" || n == "cos_angle_tab") { d = { K_IDX361, K_NONE }; return true; }
  for(const char * p : { "sin_angle_aprox_", "cos_angle_aprox_", "sin_angle_tab_", "cos_angle_tab_" })
    if(starts(n, p)) { Kind k = kind_of_tag(n.substr(strlen(p))); if(k == K_NONE) return false; d = { k, K_NONE }; return true; }
  if(n == "tan_tab" || n == "square_root_tab") { d = { K_IDX256, K_NONE }; return true; }
  if(n == "udl_int") { d = { K_U64, K_NONE }; return true; }
  if(n == "udl_float") { d = { K_F64, K_NONE }; return true; }
  if(ends(n, "_ff") || starts(n, "add_g") || starts(n, "sub_g") || starts(n, "addeq_g") || starts(n, "subeq_g")) { d = { K_FIX, K_FIX }; return true; }
  for(const char * p : { "add_c_", "add_cl_", "sub_c_", "sub_cl_", "addeq_c_", "subeq_c_", "mul_k_", "kmul_", "muleq_k_", "div_k_", "diveq_k_" }) if(starts(n, p)) { d = { K_FIX, K_NONE }; return true; }
  // T -> fixed
  for(const char * p : { "ctor_", "a2f_", "mkf_", "i2f_", "fp2f_", "a2r_", "sin_angle_", "cos_angle_", "tan_angle_" })
    if(starts(n, p)) { Kind k = kind_of_tag(n.substr(strlen(p))); if(k == K_NONE) return false; d = { k, K_NONE }; return true; }
  // fixed -> T
  for(const char * p : { "cast_", "f2i_", "f2a_", "f2fp_" }) if(starts(n, p)) { d = { K_FIX, K_NONE }; return true; }
  // mixed operators: <op>_f<tag>, <op>_<tag>f, <op>eq_f<tag>; first argument fixed, second of the scalar type
  for(const char * op : { "add", "sub", "mul", "div" })
    {
    std::string o = op;
    if(starts(n, (o + "eq_f").c_str())) { Kind k = kind_of_tag(n.substr(o.size() + 4)); if(k != K_NONE) { d = { K_FIX, k }; return true; } }
    if(starts(n, (o + "_f").c_str())) { Kind k = kind_of_tag(n.substr(o.size() + 2)); if(k != K_NONE) { d = { K_FIX, k }; return true; } }
    if(starts(n, (o + "_").c_str()) && ends(n, "f")) { Kind k = kind_of_tag(n.substr(o.size() + 1, n.size() - o.size() - 2)); if(k != K_NONE) { d = { K_FIX, k }; return true; } }
    }
  return false;
  }
static const IntType * inttype_of(Kind k) { return (k >= K_I8 && k <= K_ULL) ? &INT_TYPES[k - K_I8] : nullptr; }
const std::vector<int64_t> & boundary(Kind k)
  {
  // called concurrently by the worker threads: the cache is guarded (map nodes are stable, the returned reference stays valid)
  static std::map<int, std::vector<int64_t>> cache;
  static std::mutex cache_mutex;
  std::lock_guard<std::mutex> guard(cache_mutex);
  auto it = cache.find(k); if(it != cache.end()) return it->second;
  std::vector<int64_t> v;
  switch(k)
    {
    case K_NONE: v = { 0 }; break;
    case K_FIX: v = lattice_with({ RAW_NAN, RAW_NNAN }); break;
    case K_SHIFT: for(int64_t r = -70; r <= 63; ++r) v.push_back(r); for(int64_t r : { (int64_t)INT32_MIN, (int64_t)INT32_MIN + 1, (int64_t)-65536, (int64_t)-1000 }) v.push_back(r); break;
    case K_ANGLE: for(int64_t d = -1100; d <= 1100; ++d) v.push_back(d); for(int64_t d : { (int64_t)INT32_MIN, (int64_t)INT32_MIN + 1, (int64_t)INT32_MAX, (int64_t)INT32_MAX - 1, (int64_t)-65536, (int64_t)65536, (int64_t)-32768, (int64_t)32768 }) v.push_back(d); break;
    case K_IDX361: for(int64_t i = 0; i <= 360; ++i) v.push_back(i); break;
    case K_IDX256: for(int64_t i = 0; i <= 255; ++i) v.push_back(i); break;
    case K_COUNT: for(int64_t i = 0; i <= 64; ++i) v.push_back(i); break;
    case K_CNT63: for(int64_t i = 0; i <= 63; ++i) v.push_back(i); break;
    case K_I128: // (mantissa << 8) | shift
      for(int64_t m : { (int64_t)0, (int64_t)1, (int64_t)-1, (int64_t)2, (int64_t)-2, (int64_t)3, (int64_t)65536, (int64_t)2147483647, (int64_t)-2147483647, (int64_t)2147483648ll, ((int64_t)1 << 54) - 1, -(((int64_t)1 << 54) - 1), (int64_t)1000003 })
        for(int64_t sh : { 0, 1, 16, 31, 32, 33, 47, 62, 63, 64, 65, 70 }) v.push_back(m * 256 + sh);
      break;
    case K_F32:
      for(uint32_t sgn = 0; sgn < 2; ++sgn) for(uint32_t e = 0; e < 256; ++e) for(uint32_t m : { 0u, 1u, 0x400000u, 0x7fffffu, 0x7fff80u }) v.push_back((int64_t)((sgn << 31) | (e << 23) | m));
      for(float f : { 360.0f, -360.0f, 90.0f, 2147483647.0f, 2147483520.0f, -2147483648.0f, 32767.99f, 0.5f / 65536.0f }) v.push_back(f2bits(f));
      break;
    case K_F64:
      for(double f : { 0.0, -0.0, (double)INFINITY, -(double)INFINITY, (double)NAN, 5e-324, 1e308, 1.0, -1.0 }) v.push_back(d2bits(f)); // IEEE specials first
      for(uint64_t sgn = 0; sgn < 2; ++sgn) for(uint64_t e = 0; e < 2048; e += (e > 900 && e < 1100) ? 1 : 7) for(uint64_t m : { 0ull, 1ull, 1ull << 51, (1ull << 52) - 1 }) v.push_back((int64_t)((sgn << 63) | (e << 52) | m));
      for(double f : { 2147483647.0, 2147483646.9999995, -2147483647.0, 2147483648.0, 9.3e18, -9.3e18, 1.8e19, 0.5 / 65536.0, 140737488355327.5 }) v.push_back(d2bits(f));
      break;
    default:
      {
      const IntType * t = inttype_of(k);
      if(t->bits == 8) for(int64_t x = (int64_t)t->lo; x <= (int64_t)t->hi; ++x) v.push_back(x);
      else
        {
        std::set<int64_t> s;
        auto add = [&](i128 x) { if(x >= t->lo && x <= t->hi) s.insert((int64_t)(uint64_t)(u128)x); };
        for(int j = 0; j <= 4; ++j) { add(t->lo + j); add(t->hi - j); add(j); add(-j); }
        for(int b = 1; b < t->bits; ++b) for(int j = -2; j <= 2; ++j) { add(((i128)1 << b) + j); add(-(((i128)1 << b) + j)); }
        for(i128 x : { (i128)90, (i128)180, (i128)360, (i128)361, (i128)2147483647, (i128)2147483648ll, (i128)-2147483647, (i128)-2147483648ll, (i128)65536, (i128)32768 }) add(x);
        v.assign(s.begin(), s.end());
        }
      }
    }
  return cache[k] = v;
  }
int64_t random_of_kind(Rng & r, Kind k)
  {
  switch(k)
    {
    case K_NONE: return 0;
    case K_FIX: switch(r.below(10)) {
      case 8: { int sh = (int)r.below(39); int64_t x = (int64_t)((((r.next() & 0xffffff) | 0x800000) << 1 | 1)) << sh; x += r.range(-1, 1); return (r.next() & 1) ? -x : x; } // float rounding ties +-1
      case 9: { int sh = (int)r.below(10); int64_t x = (int64_t)((((r.next() & 0xfffffffffffffull) | 0x10000000000000ull) << 1 | 1)) << sh; x += r.range(-1, 1); if(!model_finite(x)) x = RAW_MAX; return (r.next() & 1) ? -x : x; } // double rounding ties +-1
      case 0: { int64_t v = (int64_t)r.next(); return v == INT64_MIN ? 0 : v; } case 1: return (r.next() & 1) ? RAW_NAN : RAW_NNAN; default: return (r.next() & 1) ? r.logu() : r.finite(); }
    case K_SHIFT: return r.below(4) == 0 ? r.range(INT32_MIN, -1) : r.range(0, 63);
    case K_ANGLE: return r.below(2) ? r.range(INT32_MIN, INT32_MAX) : r.range(-100000, 100000);
    case K_IDX361: return r.range(0, 360);
    case K_IDX256: return r.range(0, 255);
    case K_COUNT: return r.range(0, 64);
    case K_CNT63: return r.range(0, 63);
    case K_I128: return (r.logu(54) * 256) + (int64_t)((r.below(3) == 0) ? 64 + r.below(7) : r.below(71));
    case K_F32: return r.below(2) ? (int64_t)(r.next() & 0xffffffffu) : f2bits((float)((double)r.logu(48) / 65536.0));
    case K_F64: return r.below(2) ? (int64_t)r.next() : d2bits((double)r.logu(62) / 65536.0);
    default: return random_of_type(r, *inttype_of(k));
    }
  }
bool in_domain(Kind k, int64_t x)
  {
  switch(k)
    {
    case K_FIX: return x != INT64_MIN;                       // finite or one of the two NaN sentinels
    case K_SHIFT: return x >= INT32_MIN && x <= 63;
    case K_ANGLE: return x >= INT32_MIN && x <= INT32_MAX;
    case K_IDX361: return x >= 0 && x <= 360;
    case K_IDX256: return x >= 0 && x <= 255;
    case K_COUNT: return x >= 0 && x <= 64;
    case K_CNT63: return x >= 0 && x <= 63;
    case K_I128: return (x & 0x7f) <= 70 && (x & 0x80) == 0;
    default: return true;                                    // integral kinds are cast to the type by the wrapper, float kinds are bit patterns
    }
  }
int64_t related_fix(Rng & r, int64_t a)
  {
  const i128 P63 = (i128)1 << 63;
  switch(r.below(8))
    {
    case 0: return clamp_finite((i128)RAW_MAX - a + r.range(-4, 4));
    case 1: return clamp_finite((i128)RAW_LOWEST - a + r.range(-4, 4));
    case 2: return clamp_finite((i128)a - RAW_MAX + r.range(-4, 4));
    case 3: return a == 0 ? 1 : clamp_finite(((r.next() & 1) ? P63 : -P63) / a + r.range(-3, 3));
    case 4: return a == 0 ? 1 : clamp_finite(((i128)1 << 79) / a + r.range(-3, 3));
    case 5: return clamp_finite((i128)a + r.range(-3, 3));
    case 6: return clamp_finite(-(i128)a + r.range(-3, 3));
    default: return r.range(-4, 4);
    }
  }

// ------------------------------------------------------------------------------------------ exact factor pairs
static uint64_t mulmod(uint64_t a, uint64_t b, uint64_t m) { return (uint64_t)((u128)a * b % m); }
static uint64_t powmod(uint64_t a, uint64_t e, uint64_t m) { uint64_t r = 1; a %= m; while(e) { if(e & 1) r = mulmod(r, a, m); a = mulmod(a, a, m); e >>= 1; } return r; }
static bool is_prime64(uint64_t n)
  {
  if(n < 2) return false;
  for(uint64_t p : { 2ull, 3ull, 5ull, 7ull, 11ull, 13ull, 17ull, 19ull, 23ull, 29ull, 31ull, 37ull }) { if(n % p == 0) return n == p; }
  uint64_t d = n - 1; int s = 0; while((d & 1) == 0) { d >>= 1; ++s; }
  for(uint64_t a : { 2ull, 3ull, 5ull, 7ull, 11ull, 13ull, 17ull, 19ull, 23ull, 29ull, 31ull, 37ull })
    {
    uint64_t x = powmod(a, d, n); if(x == 1 || x == n - 1) continue;
    bool comp = true; for(int i = 1; i < s && comp; ++i) { x = mulmod(x, x, n); if(x == n - 1) comp = false; }
    if(comp) return false;
    }
  return true;
  }
static uint64_t gcd64(uint64_t a, uint64_t b) { while(b) { uint64_t t = a % b; a = b; b = t; } return a; }
static uint64_t pollard(uint64_t n)
  {
  if((n & 1) == 0) return 2;
  for(uint64_t c = 1;; ++c)
    {
    uint64_t x = 2, y = 2, d = 1;
    while(d == 1) { x = (mulmod(x, x, n) + c) % n; y = (mulmod(y, y, n) + c) % n; y = (mulmod(y, y, n) + c) % n; d = gcd64(x > y ? x - y : y - x, n); }
    if(d != n) return d;
    }
  }
static void factor(uint64_t n, std::map<uint64_t, int> & f)
  {
  if(n == 1) return;
  if(is_prime64(n)) { ++f[n]; return; }
  uint64_t d = pollard(n); factor(d, f); factor(n / d, f);
  }
std::vector<uint64_t> divisors_of(uint64_t n)
  {
  std::vector<uint64_t> ds{ 1 };
  if(n == 0) return ds;
  std::map<uint64_t, int> f;
  for(uint64_t p = 2; p < 1000 && n > 1; ++p) while(n % p == 0) { ++f[p]; n /= p; }
  factor(n, f);
  for(auto & kv : f)
    {
    size_t sz = ds.size(); uint64_t pw = 1;
    for(int e = 1; e <= kv.second; ++e) { pw *= kv.first; for(size_t i = 0; i < sz; ++i) ds.push_back(ds[i] * pw); }
    }
  std::sort(ds.begin(), ds.end());
  return ds;
  }

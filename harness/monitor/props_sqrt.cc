// C13 sqrt, C14 hypot, C19 lookup tables and *_aprox functions
#include "core.h"

namespace
{
#define CALLG(var, fn, x, y) CallRes var = c.call(fn.f[ci], x, y); if(var.sig) { c.signal_event((int)ci, fn.entry.c_str(), x, y, var.sig); continue; }

// ============================================================================================ C13
Fn SQRT3[3]; // sqrt, detail::sqrt_abacus, detail::sqrt_std_math
const char * sqrt_range_class(int64_t x) { return x >= (1ll << 46) ? "x>=2^30" : "x<2^30"; }
// |r - sqrt(x*65536)| < 1 decided in integers
inline bool sqrt_within_one(int64_t r, int64_t x)
  {
  if(r < 0) return false;
  i128 X = (i128)x * 65536, up = ((i128)r + 1) * ((i128)r + 1);
  if(!(X < up)) return false;
  if(r >= 1) { i128 lo = ((i128)r - 1) * ((i128)r - 1); if(!(lo < X)) return false; }
  return true;
  }
void j_sqrt_acc(Ctx & c, int64_t x, int64_t, int64_t)
  {
  if(x < 0 || x >= (1ll << 47)) return;
  c.stratum(x >= (1ll << 46) ? "sqrt-x>=2^30" : (x == 0 ? "sqrt-zero" : "sqrt-x<2^30"));
  { int bl = 64 - __builtin_clzll((uint64_t)x | 1); int64_t p = 1ll << (bl - 1); if(x - p < 4 || (p << 1) - x < 4 || x >= (1ll << 46) || x < 4) c.nontrivial(hash3(13, x, 0)); }
  for(size_t ci = 0; ci < g_cfgs.size(); ++ci)
    for(int k = 0; k < 3; ++k)
      {
      CALLG(r, SQRT3[k], x, 0)
      if(!sqrt_within_one(r.v, x))
        c.violation(SQRT3[k].entry + "[" + (k == 0 ? (g_cfgs[ci].sqrt_algo == 1 ? "abacus" : "std") : "direct") + "]/" + sqrt_range_class(x) + (r.v < 0 || model_isnan(r.v) ? "/negative-or-nan" : "/off-by-one-ulp-or-more"), (int)ci, x, 0, 0, i2s(r.v), "within 1 raw of sqrt(" + i2s(x) + "*65536)");
      }
  }
// history: one call of sqrt per configuration and input, so that every configuration sees a long run of consecutive DISTINCT
// arguments on the same thread (j_sqrt_acc calls three entry points with the same x). Round 11 (C12-x1, C13-x1, C14-x1): a
// thread_local "last root" memo keyed by 32 bits of a hash returns a stale root on a 2^-32 collision between consecutive calls.
void j_sqrt_hist(Ctx & c, int64_t x, int64_t, int64_t)
  {
  if(x < 0 || x >= (1ll << 47)) return;
  c.stratum("sqrt-consecutive-distinct");
  for(size_t ci = 0; ci < g_cfgs.size(); ++ci)
    {
    CALLG(r, SQRT3[0], x, 0)
    if(!sqrt_within_one(r.v, x))
      c.violation(std::string("sqrt[") + (g_cfgs[ci].sqrt_algo == 1 ? "abacus" : "std") + "]/after-other-calls/" + (r.v < 0 || model_isnan(r.v) ? "negative-or-nan" : "off-by-one-ulp-or-more"), (int)ci, x, 0, 0, i2s(r.v), "within 1 raw of sqrt(" + i2s(x) + "*65536)");
    }
  }
void j_sqrt_neg(Ctx & c, int64_t x, int64_t, int64_t)
  {
  if(x >= 0 || x == INT64_MIN) return;
  c.stratum("sqrt-negative"); if(x > -8 || x <= RAW_LOWEST + 4 || model_isnan(x)) c.nontrivial(hash3(131, x, 0));
  for(size_t ci = 0; ci < g_cfgs.size(); ++ci)
    for(int k = 0; k < 3; ++k)
      {
      // a -ffast-math build gives up IEEE NaN: the std::sqrt path signals a negative argument through a double NaN
      if(g_cfgs[ci].fastmath && !(k == 1 || (k == 0 && g_cfgs[ci].sqrt_algo == 1))) continue;
      CALLG(r, SQRT3[k], x, 0) if(!model_isnan(r.v)) c.violation(SQRT3[k].entry + "/negative-argument/not-nan", (int)ci, x, 0, 0, i2s(r.v), "NaN");
      }
  }
void j_sqrt_mono(Ctx & c, int64_t x, int64_t y, int64_t)
  {
  if(x > y || x < 0 || y >= (1ll << 47)) return;
  c.stratum("sqrt-monotone-pair");
  for(size_t ci = 0; ci < g_cfgs.size(); ++ci)
    for(int k = 0; k < 3; ++k)
      {
      CALLG(a, SQRT3[k], x, 0) CALLG(b, SQRT3[k], y, 0)
      if(a.v > b.v) c.violation(SQRT3[k].entry + "/" + sqrt_range_class(y) + "/decreases", (int)ci, x, y, 0, i2s(a.v) + " > " + i2s(b.v), "sqrt(x) <= sqrt(y)");
      }
  }
void j_sqrt_square(Ctx & c, int64_t m, int64_t, int64_t)
  {
  // n = m*256 raw; n*n as a fixed value has raw m*m (representable when m*m < 2^47)
  if(m < 0 || (i128)m * m >= ((i128)1 << 47)) return;
  c.stratum("sqrt-perfect-square"); c.nontrivial(hash3(132, m, 0));
  int64_t x = m * m;
  for(size_t ci = 0; ci < g_cfgs.size(); ++ci)
    for(int k = 0; k < 3; ++k)
      { CALLG(r, SQRT3[k], x, 0) if(r.v != m * 256) c.violation(SQRT3[k].entry + "/" + sqrt_range_class(x) + "/square-not-exact", (int)ci, m, 0, 0, i2s(r.v), i2s(m * 256)); }
  }
void c13_init() { SQRT3[0] = resolve("sqrt"); SQRT3[1] = resolve("sqrt_abacus"); SQRT3[2] = resolve("sqrt_std_math"); }
extern Property P_C13;
void c13_run(Ctx & c)
  {
  const Check & ACC = P_C13.checks[0], & NEG = P_C13.checks[1], & MONO = P_C13.checks[2], & SQ = P_C13.checks[3];
  int64_t W = c.thorough ? (1ll << 26) : (1ll << 21);
  for(int64_t x = c.shard; x < W; x += c.nshards) { c.run_check(ACC, x); if((x & 7) == 0) c.run_check(MONO, x, x + 1); }
  // windows round every power of four and round 2^46, 2^47
  uint64_t idx = 0;
  for(int k = 2; k <= 47; ++k) for(int64_t d = -600; d <= 600; ++d)
    { int64_t x = (1ll << k) + d; if(x >= 0 && x < (1ll << 47) && c.mine(idx++)) { c.run_check(ACC, x); if(x > 0) c.run_check(MONO, x - 1, x); } }
  // log-uniform up to 2^47, each with its successor; sorted for a running maximum in configuration 0's three entry points
  {
  uint64_t n = c.share(c.n(500000, 50000000));
  std::vector<int64_t> xs; xs.reserve((size_t)n);
  for(uint64_t i = 0; i < n; ++i) { int64_t x = c.rng.logu_pos(47); if(x < (1ll << 47) - 1) xs.push_back(x); }
  std::sort(xs.begin(), xs.end());
  int64_t argmax[3] = { 0, 0, 0 }, vmax[3] = { INT64_MIN, INT64_MIN, INT64_MIN };
  for(int64_t x : xs)
    {
    c.run_check(ACC, x); c.run_check(MONO, x, x + 1);
    for(int k = 0; k < 3; ++k)
      {
      int64_t v = c.call(SQRT3[k].f[g_cfgs.size() - 1], x, 0).v; // last configuration: the abacus build when one is loaded
      if(vmax[k] != INT64_MIN && v < vmax[k]) c.run_check(MONO, argmax[k], x);
      if(v >= vmax[k]) { vmax[k] = v; argmax[k] = x; }
      }
    }
  }
  // hardest arguments for any square-root algorithm: x*2^16 = k^2 - 1 (just below a perfect square). k^2 = 1 mod 2^16 forces
  // k = 2^15*i +- 1, i.e. x = 2^14*i^2 +- i; all of them below 2^47 are swept (i <= 92681), with their neighbours
  for(int64_t i = 1 + c.shard; i <= 92681; i += c.nshards)
    for(int sgn = -1; sgn <= 1; sgn += 2)
      {
      i128 x = ((i128)1 << 14) * i * i + sgn * i;
      if(x <= 0 || x >= ((i128)1 << 47) - 1) continue;
      c.run_check(ACC, (int64_t)x); c.run_check(ACC, (int64_t)x + 1); c.run_check(ACC, (int64_t)x - 1);
      c.run_check(MONO, (int64_t)x, (int64_t)x + 1); c.run_check(MONO, (int64_t)x - 1, (int64_t)x);
      c.stratum("sqrt-just-below-perfect-square");
      }
  // perfect squares n = 256*m
  const int64_t MMAX = 11863283; // floor(sqrt(2^47 - 1))
  int64_t step = c.thorough ? 1 : 23;
  for(int64_t m = c.shard * step; m <= MMAX; m += c.nshards * step) c.run_check(SQ, m);
  for(int64_t m = MMAX - 4000 + c.shard; m <= MMAX; m += c.nshards) c.run_check(SQ, m);
  // negatives
  idx = 0;
  for(int64_t x : lattice_with({ RAW_NNAN })) if(x < 0 && c.mine(idx++)) c.run_check(NEG, x);
  uint64_t n = c.share(c.n(200000, 20000000));
  for(uint64_t i = 0; i < n; ++i) c.run_check(NEG, -c.rng.logu_pos());
  // history family (thorough: 2e9 consecutive distinct arguments per configuration, spread over the worker threads)
  n = c.share(c.n(2000000, 2000000000));
  for(uint64_t i = 0; i < n; ++i) c.run_check(P_C13.checks[4], (int64_t)(c.rng.next() >> 17));
  }
Property P_C13 = { "C13", c13_init, c13_run,
  { { "sqrt_acc", j_sqrt_acc, "sqrt, sqrt_abacus, sqrt_std_math: r >= 0 and (r-1)^2 < x*2^16 < (r+1)^2; a = raw x in [0,2^47)" },
    { "sqrt_neg", j_sqrt_neg, "NaN for x < 0; a = raw" },
    { "sqrt_mono", j_sqrt_mono, "x <= y => sqrt(x) <= sqrt(y); a = x, b = y" },
    { "sqrt_square", j_sqrt_square, "sqrt(n*n) == n for n = 256*a raw" },
    { "sqrt_history", j_sqrt_hist, "sqrt only, once per configuration: r >= 0 and (r-1)^2 < x*2^16 < (r+1)^2 after a run of other arguments on the same thread; a = raw x in [0,2^47)" } },
  { "sqrt-x>=2^30", "sqrt-zero", "sqrt-x<2^30", "sqrt-negative", "sqrt-monotone-pair", "sqrt-perfect-square", "sqrt-just-below-perfect-square", "sqrt-consecutive-distinct" },
  "x within 4 raw of a power of two, x >= 2^46 raw (abacus intermediate frontier), x < 4, every perfect square, negative arguments next to 0 / lowest(); distinct by x",
  { "every raw x in [0,2^21)", "every 23rd perfect square n=256m, m <= 11863283", "every x with x*2^16 = k^2-1 below 2^47 (185,362 values) and its neighbours" },
  { "every raw x in [0,2^26)", "every representable perfect square n=256m, m <= 11863283", "every x with x*2^16 = k^2-1 below 2^47 (185,362 values) and its neighbours" } };
Registrar R_C13(&P_C13);

// ============================================================================================ C14
Fn HYPOT;
void j_hypot(Ctx & c, int64_t a, int64_t b, int64_t)
  {
  const int64_t LIM = 1ll << 47;
  if(sabs(a) >= LIM || sabs(b) >= LIM) return;
  const int64_t sa = sabs(a), sb = sabs(b); int64_t hi = sa > sb ? sa : sb, lo = sa > sb ? sb : sa;
  bool small = hi < (1ll << 30);
  const char * branch = hi == 0 ? "zero" : (hi >= (1ll << 30) ? "shift-right" : (lo < 65536 ? "shift-left" : "direct"));
  c.stratum(std::string("hypot-") .append(branch).c_str());
  if(sabs(hi - (1ll << 30)) < 1024 || sabs(lo - 65536) < 1024 || hi >= (1ll << 45) || (hi >= (1ll << 29) && lo < 65536)) c.nontrivial(hash3(14, a, b));
  i128 S = (i128)a * a + (i128)b * b;
  for(size_t ci = 0; ci < g_cfgs.size(); ++ci)
    {
    CALLG(r, HYPOT, a, b) CALLG(rs, HYPOT, b, a) CALLG(ra, HYPOT, sabs(a), sabs(b))
    std::string cls = std::string("hypot[") + (g_cfgs[ci].sqrt_algo == 1 ? "abacus" : "std") + "]/" + branch;
    if(rs.v != r.v || ra.v != r.v) c.violation(cls + "/not-symmetric", (int)ci, a, b, 0, i2s(r.v) + " vs " + i2s(rs.v) + "," + i2s(ra.v), "equal");
    if(model_isnan(r.v) || r.v < 0) { c.violation(cls + "/nan-or-negative", (int)ci, a, b, 0, i2s(r.v), "finite >= 0"); continue; }
    if(small)
      {
      // |r - sqrt(S)| <= 2 in integers
      bool ok = (i128)(r.v + 2) * (r.v + 2) >= S && (r.v <= 2 || (i128)(r.v - 2) * (r.v - 2) <= S);
      long double e = fabsl((long double)r.v - sqrtl((long double)S)); c.maxi("hypot_small_err_ulp", e, "hypot", a, b);
      if(!ok) c.violation(cls + "/small-operands/error>2ulp", (int)ci, a, b, 0, i2s(r.v), ld2s(sqrtl((long double)S)));
      }
    else
      {
      long double sq = sqrtl((long double)S), e = fabsl((long double)r.v - sq) / sq; c.maxi("hypot_rel_err", e, "hypot", a, b);
      if(e > 1.5e-4L + 1e-12L) c.violation(cls + "/relative-error>1.5e-4", (int)ci, a, b, 0, i2s(r.v), ld2s(sq));
      }
    }
  }
void c14_init() { HYPOT = resolve("hypot"); }
extern Property P_C14;
void c14_run(Ctx & c)
  {
  const Check & H = P_C14.checks[0];
  uint64_t idx = 0;
  std::vector<int64_t> L; for(int64_t x : lattice()) if(sabs(x) < (1ll << 47)) L.push_back(x);
  for(int64_t a : L) for(int64_t b : L) if(c.mine(idx++)) c.run_check(H, a, b);
  // every pair of tiny operands (quick: below 2^9 raw, thorough: below 2^11)
  { int64_t T = c.thorough ? 2048 : 512; for(int64_t a = 0; a < T; ++a) for(int64_t b = a; b < T; ++b) if(c.mine(idx++)) c.run_check(H, a, b); }
  uint64_t n = c.share(c.n(1100000, 130000000));
  for(uint64_t i = 0; i < n; ++i)
    {
    int64_t a, b;
    switch(c.rng.below(8))
      {
      case 6: a = c.rng.range(1ll << 12, 1ll << 17); b = c.rng.range(1ll << 12, 1ll << 17); break; // both operands small: the un-scaled / scaled decision on the smaller one
      case 7: a = c.rng.range(1, 1ll << 13); b = c.rng.range(1, 1ll << 17); break;
      case 0: a = c.rng.logu(47); b = c.rng.logu(47); break;
      case 1: a = (1ll << 30) + c.rng.range(-256, 256); b = c.rng.logu(31); break;           // uhi branch frontier
      case 2: a = c.rng.logu(30); b = 65536 + c.rng.range(-256, 256); break;               // ulo branch frontier
      case 3: a = c.rng.logu(47); b = c.rng.logu(17); break;                               // extreme ratios
      case 4: a = c.rng.range(1ll << 29, (1ll << 30) - 1); b = c.rng.range(0, 65535); break; // shift-left branch with large hi (abacus frontier)
      default: a = c.rng.logu(31); b = c.rng.logu(31);
      }
    if(c.rng.next() & 1) std::swap(a, b);
    if(sabs(a) >= (1ll << 47) || sabs(b) >= (1ll << 47)) continue;
    c.run_check(H, a, b);
    }
  }
Property P_C14 = { "C14", c14_init, c14_run,
  { { "hypot", j_hypot, "accuracy (2 ulp below 16384, 1.5e-4 relative otherwise), symmetry, never NaN/negative; a,b raw with |.| < 2^47" } },
  { "hypot-zero", "hypot-shift-right", "hypot-shift-left", "hypot-direct" },
  "max operand within 1024 raw of 2^30, min operand within 1024 of 65536 (branch frontiers), max >= 2^45, or the shift-left branch with max >= 2^29; distinct by (a,b)", {}, {} };
Registrar R_C14(&P_C14);

// ============================================================================================ C19
Fn SIN_TAB, COS_TAB, TAN_TAB, SQRT_TAB, SIN_AP, COS_AP, SQRT_AP, ATAN_IDX;
void j_table(Ctx & c, int64_t which, int64_t i, int64_t)
  {
  c.stratum("table-entry"); c.nontrivial(hash3(19, which, i));
  for(size_t ci = 0; ci < g_cfgs.size(); ++ci)
    {
    if(which == 0 || which == 1)
      {
      if(i < 0 || i > 360) return;
      Fn & f = which == 0 ? SIN_TAB : COS_TAB;
      CALLG(r, f, i, 0)
      long double x = (long double)i * PI_L / 180.0L, t = (which == 0 ? sinl(x) : cosl(x)) * 65536, e = fabsl((long double)r.v - t);
      c.maxi(which == 0 ? "sin_table_err_ulp" : "cos_table_err_ulp", e, f.entry.c_str(), i);
      if(e > 2.0L + 1e-6L) c.violation(f.entry + "/entry-beyond-2ulp", (int)ci, which, i, 0, i2s(r.v), ld2s(t));
      }
    else if(which == 2)
      {
      if(i < 0 || i > 255 || i == 128) return;
      CALLG(r, TAN_TAB, i, 0)
      long double t = tanl((long double)i * PI_L / 256.0L), e = fabsl((long double)r.v - t * 65536) / (1 + t * t);
      c.maxi("tan_table_err_ulp/(1+tan^2)", e, "tan_tab", i);
      if(e > 2.0L + 1e-6L) c.violation("tan_tab/entry-beyond-2ulp(1+tan^2)", (int)ci, which, i, 0, i2s(r.v), ld2s(t * 65536));
      }
    else
      {
      if(i < 0 || i > 255) return;
      CALLG(r, SQRT_TAB, i, 0)
      long double t = 65536.0L * sqrtl((long double)i / 256.0L + 31.0L / 262144.0L), e = fabsl((long double)r.v - t);
      c.maxi("sqrt_table_err", e, "square_root_tab", i);
      if(e > 1.0L + 1e-6L) c.violation("square_root_tab/entry-beyond-1", (int)ci, which, i, 0, i2s(r.v), ld2s(t));
      }
    }
  }
void j_angle_aprox(Ctx & c, int64_t d, int64_t, int64_t)
  {
  if(d < INT32_MIN || d > INT32_MAX) return;
  c.stratum(d < 0 ? "angle-negative" : (d > 360 ? "angle>360" : "angle-in-[0,360]"));
  if(d < 0 || d > 359) c.nontrivial(hash3(191, d, 0));
  int64_t m = ((d % 360) + 360) % 360;
  long double x = (long double)m * PI_L / 180.0L, s = sinl(x) * 65536, co = cosl(x) * 65536;
  for(size_t ci = 0; ci < g_cfgs.size(); ++ci)
    {
    CALLG(a, SIN_AP, d, 0) CALLG(b, COS_AP, d, 0)
    const char * cls = d < 0 ? (d % 360 == 0 ? "negative-multiple-of-360" : "negative-angle") : "non-negative-angle";
    if(fabsl((long double)a.v - s) > 2.0L + 1e-6L) c.violation(std::string("sin_angle_aprox/") + cls + "/beyond-2ulp", (int)ci, d, 0, 0, i2s(a.v), ld2s(s));
    if(fabsl((long double)b.v - co) > 2.0L + 1e-6L) c.violation(std::string("cos_angle_aprox/") + cls + "/beyond-2ulp", (int)ci, d, 0, 0, i2s(b.v), ld2s(co));
    }
  }
// the argument object at the call site has a narrower static type than the declared int32_t / uint16_t parameter
struct TypedAngle { const char * tag; int type_index; Fn sin_ap, cos_ap; };
std::vector<TypedAngle> TYPED_ANGLE;
Fn SIN_TAB_U8, COS_TAB_U8;
void j_angle_aprox_typed(Ctx & c, int64_t araw, int64_t which, int64_t)
  {
  if(which < 0 || which >= (int64_t)TYPED_ANGLE.size()) return;
  TypedAngle & t = TYPED_ANGLE[(size_t)which];
  int64_t d = (int64_t)int_value(INT_TYPES[t.type_index], araw);
  c.stratum("angle-argument-of-narrower-type"); if(d < 0 || d > 359) c.nontrivial(hash3(195, d, which));
  int64_t m = ((d % 360) + 360) % 360;
  long double x = (long double)m * PI_L / 180.0L, s = sinl(x) * 65536, co = cosl(x) * 65536;
  for(size_t ci = 0; ci < g_cfgs.size(); ++ci)
    {
    CALLG(a, t.sin_ap, araw, 0) CALLG(b, t.cos_ap, araw, 0)
    const char * cls = d < 0 ? "negative-angle" : "non-negative-angle";
    if(fabsl((long double)a.v - s) > 2.0L + 1e-6L) c.violation(t.sin_ap.entry + "/" + cls + "/beyond-2ulp", (int)ci, araw, which, 0, i2s(a.v), ld2s(s));
    if(fabsl((long double)b.v - co) > 2.0L + 1e-6L) c.violation(t.cos_ap.entry + "/" + cls + "/beyond-2ulp", (int)ci, araw, which, 0, i2s(b.v), ld2s(co));
    if(which == 2)
      { // uint8_t index into the 361-entry tables
      CALLG(ts, SIN_TAB_U8, araw, 0) CALLG(tc, COS_TAB_U8, araw, 0)
      if(fabsl((long double)ts.v - s) > 2.0L + 1e-6L) c.violation("sin_angle_tab_u8/entry-beyond-2ulp", (int)ci, araw, which, 0, i2s(ts.v), ld2s(s));
      if(fabsl((long double)tc.v - co) > 2.0L + 1e-6L) c.violation("cos_angle_tab_u8/entry-beyond-2ulp", (int)ci, araw, which, 0, i2s(tc.v), ld2s(co));
      }
    }
  }
void j_sqrt_aprox(Ctx & c, int64_t x, int64_t, int64_t)
  {
  if(x == INT64_MIN) return;
  c.stratum(x < 0 ? "sqrt_aprox-negative" : (x == 0 ? "sqrt_aprox-zero" : "sqrt_aprox-positive"));
  if(x <= 0 || x < 64 || x >= (1ll << 36)) c.nontrivial(hash3(192, x, 0));
  if(x >= (1ll << 37)) return;
  for(size_t ci = 0; ci < g_cfgs.size(); ++ci)
    {
    CALLG(r, SQRT_AP, x, 0)
    if(x < 0) { if(!model_isnan(r.v)) c.violation("sqrt_aprox/negative/not-nan", (int)ci, x, 0, 0, i2s(r.v), "NaN"); continue; }
    if(x == 0) { if(r.v != 0) c.violation("sqrt_aprox/zero/not-zero", (int)ci, x, 0, 0, i2s(r.v), "0"); continue; }
    long double t = sqrtl((long double)x * 65536.0L), e = fabsl((long double)r.v - t) / t;
    c.maxi("sqrt_aprox_rel_err", e, "sqrt_aprox", x);
    if(model_isnan(r.v) || e > 0.02L + 1e-12L) c.violation("sqrt_aprox/relative-error>2%", (int)ci, x, 0, 0, i2s(r.v), ld2s(t));
    }
  }
void j_atan_index(Ctx & c, int64_t x, int64_t, int64_t)
  {
  if(sabs(x) >= (1ll << 47)) return;
  c.stratum(x < 0 ? "atan_index-negative" : "atan_index-non-negative");
  if(sabs(x) > (1ll << 22) || sabs(x) < 1024) c.nontrivial(hash3(193, x, 0));
  long double t = atanl(raw2ld(x)) * 128.0L / PI_L;
  for(size_t ci = 0; ci < g_cfgs.size(); ++ci)
    {
    CALLG(r, ATAN_IDX, x, 0)
    long double e = fabsl(raw2ld(r.v) - t); c.maxi("atan_index_err", e, "atan_index_aprox", x);
    if(model_isnan(r.v) || e > 1.25L + 1e-9L) c.violation("atan_index_aprox/error>1.25", (int)ci, x, 0, 0, i2s(r.v), ld2s(t * 65536));
    }
  }
Fn SINIT[8], SNOW[8];
const char * SINIT_NAMES[8] = { "sin_angle_aprox", "cos_angle_aprox", "sqrt_aprox", "hypot_aprox", "atan_index_aprox", "sin_angle_tab", "tan_tab", "square_root_tab" };
// value returned by a call made during static initialisation of another translation unit == value returned now; a = probe index
void j_static_init(Ctx & c, int64_t i, int64_t k, int64_t)
  {
  if(i < 0 || i > 11 || k < 0 || k > 7) return;
  c.stratum("call-during-static-initialisation"); c.nontrivial(hash3(194, i, k));
  for(size_t ci = 0; ci < g_cfgs.size(); ++ci)
    {
    CALLG(a, SINIT[k], i, 0) CALLG(b, SNOW[k], i, 0)
    if(a.v != b.v) c.violation(std::string(SINIT_NAMES[k]) + "/differs-during-static-initialisation", (int)ci, i, k, 0, i2s(a.v), i2s(b.v) + " (same call from main)");
    }
  }
void c19_init()
  {
  for(int k = 0; k < 8; ++k) { SINIT[k] = resolve((std::string("sinit_") + SINIT_NAMES[k]).c_str()); SNOW[k] = resolve((std::string("snow_") + SINIT_NAMES[k]).c_str()); }
  SIN_TAB = resolve("sin_angle_tab"); COS_TAB = resolve("cos_angle_tab"); TAN_TAB = resolve("tan_tab"); SQRT_TAB = resolve("square_root_tab");
  if(TYPED_ANGLE.empty())
    for(auto tt : { std::pair<const char *, int>{ "i8", 0 }, { "i16", 1 }, { "u8", 4 }, { "u16", 5 } })
      TYPED_ANGLE.push_back({ tt.first, tt.second, resolve((std::string("sin_angle_aprox_") + tt.first).c_str()), resolve((std::string("cos_angle_aprox_") + tt.first).c_str()) });
  SIN_TAB_U8 = resolve("sin_angle_tab_u8"); COS_TAB_U8 = resolve("cos_angle_tab_u8");
  SIN_AP = resolve("sin_angle_aprox"); COS_AP = resolve("cos_angle_aprox"); SQRT_AP = resolve("sqrt_aprox"); ATAN_IDX = resolve("atan_index_aprox");
  }
extern Property P_C19;
void c19_run(Ctx & c)
  {
  const Check & TAB = P_C19.checks[0], & ANG = P_C19.checks[1], & SQ = P_C19.checks[2], & AI = P_C19.checks[3], & SI = P_C19.checks[4];
  uint64_t idx = 0;
  if(c.shard == 0) for(int64_t k = 0; k < 8; ++k) for(int64_t i = 0; i < 12; ++i) c.run_check(SI, i, k);
  for(int64_t i = 0; i <= 360; ++i) if(c.mine(idx++)) { c.run_check(TAB, 0, i); c.run_check(TAB, 1, i); }
  for(int64_t i = 0; i <= 255; ++i) if(c.mine(idx++)) { c.run_check(TAB, 2, i); c.run_check(TAB, 3, i); }
  // angles
  if(c.thorough) for(int64_t d = (int64_t)INT32_MIN + c.shard; d <= INT32_MAX; d += c.nshards) c.run_check(ANG, d);
  else
    {
    for(int64_t d = -1000000 + c.shard; d <= 1000000; d += c.nshards) c.run_check(ANG, d);
    for(int64_t d = (int64_t)INT32_MIN + c.shard * 4093; d <= INT32_MAX; d += (int64_t)c.nshards * 4093) c.run_check(ANG, d);
    }
  { const Check & AT = P_C19.checks[5];
    for(int64_t w = 0; w < (int64_t)TYPED_ANGLE.size(); ++w)
      { const IntType & t = INT_TYPES[TYPED_ANGLE[(size_t)w].type_index]; for(int64_t v = (int64_t)t.lo + c.shard; v <= (int64_t)t.hi; v += c.nshards) c.run_check(AT, v, w); } }
  if(c.shard == 0) for(int64_t d : { (int64_t)INT32_MIN, (int64_t)INT32_MIN + 1, (int64_t)INT32_MAX, (int64_t)INT32_MAX - 1, (int64_t)-360, (int64_t)-361, (int64_t)-359, (int64_t)-1, (int64_t)361, (int64_t)720 }) c.run_check(ANG, d);
  // sqrt_aprox
  int64_t W = c.thorough ? (1ll << 26) : (1ll << 21);
  for(int64_t x = c.shard; x < W; x += c.nshards) c.run_check(SQ, x);
  uint64_t n = c.share(c.n(400000, 40000000));
  for(uint64_t i = 0; i < n; ++i) { int64_t x = c.rng.logu_pos(37); if(x < (1ll << 37)) c.run_check(SQ, x); if((i & 15) == 0) c.run_check(SQ, -c.rng.logu_pos()); }
  for(int k = 6; k <= 37; ++k) for(int64_t d = -300 + c.shard; d <= 300; d += c.nshards) { int64_t x = (1ll << k) + d; if(x > 0 && x < (1ll << 37)) c.run_check(SQ, x); }
  // atan_index_aprox
  W = c.thorough ? (1ll << 24) : (1ll << 20);
  for(int64_t x = -W + c.shard; x <= W; x += c.nshards) c.run_check(AI, x);
  // windows round every tangent-table entry (decision boundaries of the binary search)
  for(int64_t i = c.shard; i < 256; i += c.nshards)
    {
    if(i == 128) continue;
    int64_t t = c.call(TAN_TAB.f[0], i, 0).v;
    for(int64_t d = -40; d <= 40; ++d) if(sabs(t + d) < (1ll << 47)) c.run_check(AI, t + d);
    }
  n = c.share(c.n(300000, 30000000));
  for(uint64_t i = 0; i < n; ++i) c.run_check(AI, c.rng.logu(47));
  }
Property P_C19 = { "C19", c19_init, c19_run,
  { { "table", j_table, "table entry a (0 sin, 1 cos, 2 tan, 3 sqrt) index b against the tabulated function" },
    { "angle_aprox", j_angle_aprox, "sin_angle_aprox(d), cos_angle_aprox(d) within 2 ulp of sin/cos(d degrees); a = int32 d" },
    { "sqrt_aprox", j_sqrt_aprox, "relative error <= 2% on [2^-16, 2^21), 0 at 0, NaN below 0; a = raw" },
    { "atan_index", j_atan_index, "|atan_index_aprox(x) - atan(x)*128/pi| <= 1.25; a = raw, |x| < 2^47" },
    { "static_init", j_static_init, "the compiled table functions called from a static initialiser of another translation unit (linked before fixed_math.cc) return what they return from main; a = probe 0..11, b = function 0..7" },
    { "angle_aprox_typed", j_angle_aprox_typed, "sin/cos_angle_aprox(d) with d an int8_t, int16_t, uint8_t or uint16_t object (and sin/cos_angle_tab with a uint8_t index): every value of the type; a = value, b = type 0..3" } },
  { "angle-argument-of-narrower-type", "table-entry", "angle-negative", "angle>360", "angle-in-[0,360]", "sqrt_aprox-negative", "sqrt_aprox-zero", "sqrt_aprox-positive", "atan_index-negative", "atan_index-non-negative" },
  "every table entry; angles outside [0,359]; sqrt_aprox arguments <= 0, below 64 raw or >= 2^36 raw; atan_index arguments below 1024 raw or above 2^22 raw; distinct by argument",
  { "all 361+361+255+256 table entries", "every angle in [-10^6,10^6]", "every raw x in [0,2^21) for sqrt_aprox", "every raw |x| <= 2^20 for atan_index_aprox" },
  { "all 361+361+255+256 table entries", "all 2^32 int32 angles", "every raw x in [0,2^26) for sqrt_aprox", "every raw |x| <= 2^24 for atan_index_aprox" } };
Registrar R_C19(&P_C19);
}

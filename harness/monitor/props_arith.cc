// C01 add/sub, C02 multiply, C03 divide, C06 ordering/NaN/neg/abs, C15 floor/ceil, C18 shifts and &
// Oracles are exact __int128 models written from the property statements.
#include "core.h"
#include "gen.h"

namespace
{
// frontier-concentrated second operand: b such that a (+) b lands within delta of target T
inline int64_t complement_add(Rng & r, int64_t a, i128 T) { return clamp_finite(T - (i128)a + (i128)r.range(-4, 4)); }
inline int64_t complement_sub(Rng & r, int64_t a, i128 T) { return clamp_finite((i128)a - T + (i128)r.range(-4, 4)); }
const i128 P63 = (i128)1 << 63;
const i128 ADD_TARGETS[] = { (i128)RAW_MAX, (i128)RAW_LOWEST, P63 - 1, -(P63 - 1), P63, -P63, P63 + 1, -P63 - 1 };

// ============================================================================================ C01
struct Op { Fn fn; bool isnan_result; };
std::vector<Op> ADD, SUB, ADD_PP, ADD_NN, SUB_PN, SUB_NP;
struct ConstShape { const char * tag; int64_t K; Fn add_c, add_cl, sub_c, sub_cl, addeq_c, subeq_c; };
std::vector<ConstShape> CONSTS;
Fn ADD_ACCUM, SUB_ACCUM;

void c01_class(Ctx & c, const char * entry, int ci, int64_t a, int64_t b, i128 e, int64_t r, bool isnan_result)
  {
  // (a,b) are the arguments of the running check, reported verbatim so that --replay re-judges the same event
  bool in = e >= RAW_LOWEST && e <= RAW_MAX;
  if(isnan_result)
    {
    if((r != 0) != !in)
      c.violation(std::string(entry) + (in ? "/in-range/reported-nan" : (e == -P63 ? "/exact=-2^63/not-nan" : "/overflow/not-nan")), ci, a, b, 0, i2s(r), in ? "isnan false" : "isnan true");
    return;
    }
  if(in)
    {
    if(r != (int64_t)e) c.violation(std::string(entry) + (model_isnan(r) ? "/in-range/nan" : "/in-range/wrong-value"), ci, a, b, 0, i2s(r), i128s(e));
    }
  else if(!model_isnan(r))
    c.violation(std::string(entry) + (e == -P63 ? "/exact=-2^63/not-nan" : (e > 0 ? "/positive-overflow/not-nan" : "/negative-overflow/not-nan")), ci, a, b, 0, i2s(r), "NaN (exact " + i128s(e) + ")");
  }
void c01_strata(Ctx & c, int64_t a, int64_t b, i128 e)
  {
  if(e > RAW_MAX) c.stratum("positive-overflow"); else if(e < RAW_LOWEST) c.stratum(e == -P63 ? "exact=-2^63" : "negative-overflow");
  else if(e == RAW_MAX) c.stratum("exact=max"); else if(e == RAW_LOWEST) c.stratum("exact=lowest"); else c.stratum("in-range");
  i128 d1 = e - (i128)RAW_MAX, d2 = e - (i128)RAW_LOWEST; if(d1 < 0) d1 = -d1; if(d2 < 0) d2 = -d2;
  if(d1 <= 65536 || d2 <= 65536 || e > RAW_MAX || e < RAW_LOWEST) c.nontrivial(hash3(1, a, b, (int64_t)(e & 1)));
  }
void run_ops(Ctx & c, std::vector<Op> & ops, int64_t a, int64_t b, i128 e)
  {
  for(auto & op : ops)
    for(size_t ci = 0; ci < g_cfgs.size(); ++ci)
      {
      CallRes r = c.call(op.fn.f[ci], a, b);
      if(r.sig) { c.signal_event((int)ci, op.fn.entry.c_str(), a, b, r.sig); continue; }
      c01_class(c, op.fn.entry.c_str(), (int)ci, a, b, e, r.v, op.isnan_result);
      }
  }
void j_add(Ctx & c, int64_t a, int64_t b, int64_t)
  {
  if(!model_finite(a) || !model_finite(b)) return; // the statement quantifies over finite operands
  i128 e = (i128)a + b; c01_strata(c, a, b, e); run_ops(c, ADD, a, b, e);
  if(a > 0 && b > 0) { c.stratum("guard-pp"); run_ops(c, ADD_PP, a, b, e); }
  if(a < 0 && b < 0) { c.stratum("guard-nn"); run_ops(c, ADD_NN, a, b, e); }
  }
void j_sub(Ctx & c, int64_t a, int64_t b, int64_t)
  {
  if(!model_finite(a) || !model_finite(b)) return;
  i128 e = (i128)a - b; c01_strata(c, a, b, e); run_ops(c, SUB, a, b, e);
  if(a > 0 && b < 0) { c.stratum("guard-pn"); run_ops(c, SUB_PN, a, b, e); }
  if(a < 0 && b > 0) { c.stratum("guard-np"); run_ops(c, SUB_NP, a, b, e); }
  }
void j_const(Ctx & c, int64_t a, int64_t which, int64_t)
  {
  if(!model_finite(a)) return;
  ConstShape & s = CONSTS[(size_t)which % CONSTS.size()];
  struct { Fn * f; i128 e; } v[] = { { &s.add_c, (i128)a + s.K }, { &s.add_cl, (i128)s.K + a }, { &s.sub_c, (i128)a - s.K }, { &s.sub_cl, (i128)s.K - a }, { &s.addeq_c, (i128)a + s.K }, { &s.subeq_c, (i128)a - s.K } };
  c.stratum("const-operand");
  for(auto & x : v)
    {
    c01_strata(c, a, s.K, x.e);
    for(size_t ci = 0; ci < g_cfgs.size(); ++ci)
      {
      CallRes r = c.call(x.f->f[ci], a, 0);
      if(r.sig) { c.signal_event((int)ci, x.f->entry.c_str(), a, 0, r.sig); continue; }
      c01_class(c, x.f->entry.c_str(), (int)ci, a, which, x.e, r.v, false);
      }
    }
  }
void j_accum(Ctx & c, int64_t a, int64_t n, int64_t)
  {
  if(n < 0 || n > 64 || !model_finite(a)) return;
  i128 before = (i128)a * n, e = (i128)a * (n + 1);
  if(before > RAW_MAX || before < RAW_LOWEST) return; // only the last step may leave the range
  c.stratum("accumulate"); c01_strata(c, a, n, e);
  for(Fn * f : { &ADD_ACCUM, &SUB_ACCUM })
    for(size_t ci = 0; ci < g_cfgs.size(); ++ci)
      {
      CallRes r = c.call(f->f[ci], a, n);
      if(r.sig) { c.signal_event((int)ci, f->entry.c_str(), a, n, r.sig); continue; }
      c01_class(c, f->entry.c_str(), (int)ci, a, n, e, r.v, false);
      }
  }
Fn ADD_SELF[2], SUB_SELF[2];
void j_self(Ctx & c, int64_t a, int64_t, int64_t)
  {
  if(!model_finite(a)) return;
  c.stratum("aliased-operands");
  i128 e = (i128)a + a; c01_strata(c, a, a, e);
  for(int k = 0; k < 2; ++k)
    for(size_t ci = 0; ci < g_cfgs.size(); ++ci)
      {
      CallRes r = c.call(ADD_SELF[k].f[ci], a, 0), z = c.call(SUB_SELF[k].f[ci], a, 0);
      if(r.sig || z.sig) { c.signal_event((int)ci, ADD_SELF[k].entry.c_str(), a, 0, r.sig ? r.sig : z.sig); continue; }
      c01_class(c, ADD_SELF[k].entry.c_str(), (int)ci, a, 0, e, r.v, false);
      c01_class(c, SUB_SELF[k].entry.c_str(), (int)ci, a, 0, 0, z.v, false);
      }
  }
void c01_init()
  {
  reassign_setup();
  ADD_SELF[0] = resolve("addeq_self"); ADD_SELF[1] = resolve("addeq_ref_self"); SUB_SELF[0] = resolve("subeq_self"); SUB_SELF[1] = resolve("subeq_ref_self");
  auto mk = [](std::initializer_list<const char *> v, std::initializer_list<const char *> nanv) { std::vector<Op> o; for(auto n : v) o.push_back({ resolve(n), false }); for(auto n : nanv) o.push_back({ resolve(n), true }); return o; };
  ADD = mk({ "add_ff", "addeq_ff", "fn_add_ff" }, { "add_isnan" });
  SUB = mk({ "sub_ff", "subeq_ff", "fn_sub_ff" }, { "sub_isnan" });
  ADD_PP = mk({ "add_g_pp", "addeq_g_pp", "add_gf_pp" }, { "add_isnan_pp" });
  ADD_NN = mk({ "add_g_nn" }, {});
  SUB_PN = mk({ "sub_g_pn" }, {});
  SUB_NP = mk({ "sub_g_np", "subeq_g_np", "sub_gf_np" }, { "sub_isnan_np" });
  struct { const char * t; int64_t k; } cs[] = { { "max", RAW_MAX }, { "low", RAW_LOWEST }, { "p1", 1 }, { "m1", -1 }, { "p2", 2 }, { "m2", -2 }, { "big", 0x7ffffffffffffff0ll }, { "mbig", -0x7ffffffffffffff0ll }, { "p62", 1ll << 62 }, { "m62", -(1ll << 62) }, { "one", 65536 }, { "p47", 1ll << 47 } };
  CONSTS.clear();
  for(auto & x : cs)
    {
    std::string t = x.t;
    CONSTS.push_back({ x.t, x.k, resolve(("add_c_" + t).c_str()), resolve(("add_cl_" + t).c_str()), resolve(("sub_c_" + t).c_str()), resolve(("sub_cl_" + t).c_str()), resolve(("addeq_c_" + t).c_str()), resolve(("subeq_c_" + t).c_str()) });
    }
  ADD_ACCUM = resolve("add_accum"); SUB_ACCUM = resolve("sub_accum");
  }
extern Property P_C01;
void c01_run(Ctx & c)
  {
  { const Check & RA = P_C01.checks[P_C01.checks.size() - 1]; const auto & LL = lattice(); uint64_t ridx = 0;
    for(int64_t k = 0; k <= 3; ++k)
      {
      for(int64_t a : LL) if(c.mine(ridx++)) c.run_check(RA, a, LL[(ridx * 11) % LL.size()], k);
      uint64_t m = c.share(c.n(20000, 2000000)); for(uint64_t i = 0; i < m; ++i) c.run_check(RA, c.rng.logu(), c.rng.logu(), k);
      } }
  const Check & ADDC = P_C01.checks[0], & SUBC = P_C01.checks[1], & CONSTC = P_C01.checks[2], & ACC = P_C01.checks[3], & SELF = P_C01.checks[4];
  const auto & L = lattice();
  uint64_t idx = 0;
  for(int64_t a : L) if(c.mine(idx++)) c.run_check(SELF, a);
  { uint64_t m = c.share(c.n(100000, 10000000));
    for(uint64_t i = 0; i < m; ++i) c.run_check(SELF, (i & 1) ? c.rng.logu() : clamp_finite(((c.rng.next() & 1) ? P63 : -P63) / 2 + c.rng.range(-70000, 70000))); }
  for(int64_t a : L) for(int64_t b : L) { if(c.mine(idx++)) { c.run_check(ADDC, a, b); c.run_check(SUBC, a, b); } }
  uint64_t n = c.share(c.n(400000, 40000000));
  for(uint64_t i = 0; i < n; ++i)
    {
    int64_t a = (i & 1) ? c.rng.logu() : c.rng.finite();
    i128 T = ADD_TARGETS[c.rng.below(8)];
    c.run_check(ADDC, a, complement_add(c.rng, a, T));
    c.run_check(SUBC, a, complement_sub(c.rng, a, T));
    }
  n = c.share(c.n(200000, 20000000));
  for(uint64_t i = 0; i < n; ++i)
    {
    int64_t a = c.rng.logu(), b = c.rng.logu(); c.run_check(ADDC, a, b); c.run_check(SUBC, a, b);
    a = c.rng.finite(); b = c.rng.finite(); c.run_check(ADDC, a, b); c.run_check(SUBC, a, b);
    }
  // constant-operand shapes: lattice, frontier complements of every K, random
  idx = 0;
  for(size_t k = 0; k < CONSTS.size(); ++k)
    {
    for(int64_t a : L) if(c.mine(idx++)) c.run_check(CONSTC, a, (int64_t)k);
    uint64_t m = c.share(c.n(20000, 2000000));
    for(uint64_t i = 0; i < m; ++i)
      {
      i128 T = ADD_TARGETS[c.rng.below(8)]; int64_t K = CONSTS[k].K; int64_t a;
      switch(c.rng.below(4)) { case 0: a = clamp_finite(T - K + c.rng.range(-4, 4)); break; case 1: a = clamp_finite(T + K + c.rng.range(-4, 4)); break; case 2: a = clamp_finite((i128)K - T + c.rng.range(-4, 4)); break; default: a = c.rng.logu(); }
      c.run_check(CONSTC, a, (int64_t)k);
      }
    }
  n = c.share(c.n(50000, 5000000));
  for(uint64_t i = 0; i < n; ++i)
    {
    int64_t cnt = c.rng.range(0, 64); int64_t a;
    if(c.rng.next() & 1) a = c.rng.logu();
    else { a = clamp_finite((i128)RAW_MAX / (cnt + 1) + c.rng.range(-3, 3)); if(c.rng.next() & 1) a = -a; }
    c.run_check(ACC, a, cnt);
    }
  }
Property P_C01 = { "C01", c01_init, c01_run,
  { { "add", j_add, "a+b over add_ff, addeq_ff, fn_add_ff, add_isnan and (signs permitting) the guarded call-site shapes; a,b raw" },
    { "sub", j_sub, "a-b over sub_ff, subeq_ff, fn_sub_ff, sub_isnan and guarded shapes; a,b raw" },
    { "const", j_const, "a (+/-) K and K (+/-) a with compile-time constant K = CONSTS[b]; a raw" },
    { "accum", j_accum, "s=a; repeat b times s+=a (and s-=(-a)); only the last step may overflow" },
    { "self", j_self, "aliased compound assignment: x += x and x -= x on one object (directly and through two references); a raw" },
    { "reassign", judge_reassign, "a+b / a-b computed twice in one function with one operand object modified in between; the second result must be the plain operator on the modified operands; c = shape 0..3" } },
  { "aliased-operands", "in-range", "positive-overflow", "negative-overflow", "exact=-2^63", "exact=max", "exact=lowest", "guard-pp", "guard-nn", "guard-pn", "guard-np", "const-operand", "accumulate" },
  "exact result within 65536 raw of max()/lowest() or outside [lowest(),max()] (expected NaN); distinct by (a,b)", {}, {} };
Registrar R_C01(&P_C01);

// ============================================================================================ C02
std::vector<Fn> MUL;
struct MulInt { Fn fT, Tf, eq; };
MulInt MULI[N_INT];
void j_mul(Ctx & c, int64_t a, int64_t b, int64_t)
  {
  if(!model_finite(a) || !model_finite(b)) return;
  i128 P = (i128)a * b;
  bool fits64 = P >= -P63 && P < P63;
  bool outside = P > (i128)RAW_MAX * 65536 || P < (i128)RAW_LOWEST * 65536;
  c.stratum(fits64 ? "product-fits-int64" : (outside ? "product-outside-range" : "product-between"));
  { i128 ap = P < 0 ? -P : P; i128 d = ap - P63; if(d < 0) d = -d; if(!fits64 || d < ((i128)1 << 40)) c.nontrivial(hash3(2, a, b)); }
  if(P < 0 && (P & 0xffff) != 0) c.stratum("negative-inexact");
  for(auto & f : MUL)
    for(size_t ci = 0; ci < g_cfgs.size(); ++ci)
      {
      CallRes r = c.call(f.f[ci], a, b);
      if(r.sig) { c.signal_event((int)ci, f.entry.c_str(), a, b, r.sig); continue; }
      if(model_isnan(r.v))
        { if(fits64) c.violation(f.entry + "/raw-product-fits-int64/nan", (int)ci, a, b, 0, i2s(r.v), "non-NaN within 1 ulp of " + i128s(P) + "/65536"); }
      else
        {
        i128 d = (i128)r.v * 65536 - P; if(d < 0) d = -d;
        if(outside) c.violation(f.entry + "/product-outside-range/not-nan", (int)ci, a, b, 0, i2s(r.v), "NaN");
        else if(d > 65536 || !model_finite(r.v))
          c.violation(f.entry + (fits64 ? "/raw-product-fits-int64/wrong-value" : "/raw-product-overflows-int64/wrong-value"), (int)ci, a, b, 0, i2s(r.v), "NaN or within 1 ulp of " + i128s(P) + "/65536");
        else c.maxi("mul_err_raw_x65536", (long double)d, "mul", a, b);
        }
      }
  }
template<int TI> void j_mul_int(Ctx & c, int64_t a, int64_t nraw, int64_t)
  {
  if(!model_finite(a)) return;
  const IntType & t = INT_TYPES[TI];
  i128 nv = int_value(t, nraw), E = (i128)a * nv;
  bool in = E >= RAW_LOWEST && E <= RAW_MAX;
  c.stratum(in ? "scalar-in-range" : "scalar-out-of-range");
  if(nv > 2147483647 || nv < -2147483647) c.stratum("scalar-beyond-2^31");
  if(!t.is_signed && t.bits == 64 && nv >= P63) c.stratum("u64-scalar>=2^63");
  { i128 ae = E < 0 ? -E : E; i128 d = ae - P63; if(d < 0) d = -d; if(!in || d < ((i128)1 << 32)) c.nontrivial(hash3(20 + TI, a, nraw)); }
  for(Fn * f : { &MULI[TI].fT, &MULI[TI].Tf, &MULI[TI].eq })
    for(size_t ci = 0; ci < g_cfgs.size(); ++ci)
      {
      CallRes r = c.call(f->f[ci], a, nraw);
      if(r.sig) { c.signal_event((int)ci, f->entry.c_str(), a, nraw, r.sig); continue; }
      if(in) { if(r.v != (int64_t)E) c.violation(f->entry + (model_isnan(r.v) ? "/in-range/nan" : "/in-range/wrong-value"), (int)ci, a, nraw, 0, i2s(r.v), i128s(E)); }
      else if(!model_isnan(r.v)) c.violation(f->entry + "/out-of-range/not-nan", (int)ci, a, nraw, 0, i2s(r.v), "NaN (exact " + i128s(E) + ")");
      }
  }
struct KScalar { const char * tag; i128 K; Fn mul_k, kmul, muleq_k, div_k, diveq_k; };
std::vector<KScalar> KS;
void ks_init()
  {
  if(!KS.empty()) return;
  struct { const char * t; i128 k; } v[] = { { "i2", 2 }, { "i3", 3 }, { "i4", 4 }, { "im1", -1 }, { "i0", 0 }, { "i65536", 65536 }, { "l2p20", (i128)1 << 20 }, { "u16_8", 8 }, { "lprime", 1000000007 }, { "u64big", ((i128)1 << 63) + 1 } };
  for(auto & x : v) { std::string t = x.t; KS.push_back({ x.t, x.k, resolve(("mul_k_" + t).c_str()), resolve(("kmul_" + t).c_str()), resolve(("muleq_k_" + t).c_str()), resolve(("div_k_" + t).c_str()), resolve(("diveq_k_" + t).c_str()) }); }
  }
// a * K, K * a, a *= K with K a compile-time constant at the call site; b = index of the constant
void j_mul_const(Ctx & c, int64_t a, int64_t which, int64_t)
  {
  if(!model_finite(a) || which < 0 || which >= (int64_t)KS.size()) return;
  KScalar & k = KS[(size_t)which]; i128 E = (i128)a * k.K; bool in = E >= RAW_LOWEST && E <= RAW_MAX;
  c.stratum("constant-scalar-multiplier"); if(!in) c.nontrivial(hash3(28, a, which));
  for(Fn * f : { &k.mul_k, &k.kmul, &k.muleq_k })
    for(size_t ci = 0; ci < g_cfgs.size(); ++ci)
      {
      CallRes r = c.call(f->f[ci], a, 0);
      if(r.sig) { c.signal_event((int)ci, f->entry.c_str(), a, which, r.sig); continue; }
      if(in ? r.v != (int64_t)E : !model_isnan(r.v)) c.violation(f->entry + (in ? "/in-range/wrong-value" : "/out-of-range/not-nan"), (int)ci, a, which, 0, i2s(r.v), in ? i128s(E) : "NaN");
      }
  }
Fn I128_SUP, DIV_I128[2];
inline i128 dec_i128(int64_t b) { int sh = (int)(b & 0x7f); if(sh > 70) sh = 70; return (i128)(b >> 8) * ((i128)1 << sh); }
Fn MUL_SELF[2];
void j_mul_self(Ctx & c, int64_t a, int64_t, int64_t)
  {
  if(!model_finite(a)) return;
  c.stratum("aliased-multiply");
  i128 P = (i128)a * a; bool fits64 = P < P63, outside = P > (i128)RAW_MAX * 65536;
  if(!fits64) c.nontrivial(hash3(29, a, a));
  for(int k = 0; k < 2; ++k)
    for(size_t ci = 0; ci < g_cfgs.size(); ++ci)
      {
      CallRes r = c.call(MUL_SELF[k].f[ci], a, 0);
      if(r.sig) { c.signal_event((int)ci, MUL_SELF[k].entry.c_str(), a, 0, r.sig); continue; }
      if(model_isnan(r.v)) { if(fits64) c.violation(MUL_SELF[k].entry + "/raw-product-fits-int64/nan", (int)ci, a, 0, 0, i2s(r.v), i128s(P) + "/65536"); continue; }
      i128 d = (i128)r.v * 65536 - P; if(d < 0) d = -d;
      if(outside || d > 65536 || !model_finite(r.v)) c.violation(MUL_SELF[k].entry + (outside ? "/product-outside-range/not-nan" : "/wrong-value"), (int)ci, a, 0, 0, i2s(r.v), "NaN or " + i128s(P) + "/65536");
      }
  }
void c02_init()
  {
  reassign_setup();
  MUL_SELF[0] = resolve("muleq_self"); MUL_SELF[1] = resolve("muleq_ref_self"); ks_init();
  MUL = { resolve("mul_ff"), resolve("muleq_ff"), resolve("fn_mul_ff") };
  for(int i = 0; i < N_INT; ++i) { std::string t = INT_TYPES[i].tag; MULI[i] = { resolve(("mul_f" + t).c_str()), resolve(("mul_" + t + "f").c_str()), resolve(("muleq_f" + t).c_str()) }; }
  }
extern Property P_C02;
int64_t mul_complement(Rng & r, int64_t a, i128 T)
  {
  if(a == 0) return r.logu();
  i128 q = T / a + r.range(-3, 3);
  return clamp_finite(q);
  }
void c02_run(Ctx & c)
  {
  { const Check & RA = P_C02.checks[P_C02.checks.size() - 1]; const auto & LL = lattice(); uint64_t ridx = 0;
    for(int64_t k = 4; k <= 5; ++k)
      {
      for(int64_t a : LL) if(c.mine(ridx++)) c.run_check(RA, a, LL[(ridx * 11) % LL.size()], k);
      uint64_t m = c.share(c.n(20000, 2000000)); for(uint64_t i = 0; i < m; ++i) c.run_check(RA, c.rng.logu(), c.rng.logu(), k);
      } }
  const Check & M = P_C02.checks[0], & MS = P_C02.checks[9], & MK = P_C02.checks[10];
  const auto & L = lattice();
  uint64_t idx = 0;
  for(int64_t a : L) if(c.mine(idx++)) c.run_check(MS, a);
  // square-root frontiers: both operands round sqrt(2^63) (int64 frontier) and sqrt(max*2^16) (value frontier)
  for(int64_t root : { (int64_t)3037000500ll, (int64_t)777472127994ll })
    {
    for(int64_t d = -65536 + c.shard; d <= 65536; d += c.nshards) { c.run_check(MS, root + d); c.run_check(MS, -(root + d)); }
    for(int64_t da = -48; da <= 48; ++da) for(int64_t db = -48; db <= 48; ++db) if(c.mine(idx++)) { c.run_check(M, root + da, root + db); c.run_check(M, -(root + da), root + db); }
    }
  // exact factor pairs of the frontier constants: raw products that land exactly on 2^63-2 .. 2^63+1 and on the value frontier
  if(c.shard == 0)
    for(uint64_t T : { (uint64_t)RAW_MAX, (uint64_t)RAW_MAX + 1, (uint64_t)RAW_MAX + 2, (uint64_t)RAW_MAX + 3, (uint64_t)RAW_MAX - 1, (uint64_t)RAW_MAX - 2 })
      for(uint64_t d : divisors_of(T))
        {
        uint64_t q = T / d; if(d > (uint64_t)RAW_MAX || q > (uint64_t)RAW_MAX) continue;
        for(int sa = -1; sa <= 1; sa += 2) for(int sb = -1; sb <= 1; sb += 2) { c.run_check(M, sa * (int64_t)d, sb * (int64_t)q); c.stratum("exact-factor-pair"); }
        }
  // compile-time constant multipliers
  for(size_t k = 0; k < KS.size(); ++k)
    {
    for(int64_t a : L) if(c.mine(idx++)) c.run_check(MK, a, (int64_t)k);
    uint64_t m = c.share(c.n(20000, 2000000));
    for(uint64_t i = 0; i < m; ++i)
      {
      int64_t a = (i & 1) ? c.rng.logu() : (KS[k].K == 0 ? c.rng.finite() : clamp_finite(((c.rng.next() & 1) ? P63 : -P63) / KS[k].K + c.rng.range(-4, 4)));
      c.run_check(MK, a, (int64_t)k);
      }
    }
  { uint64_t m = c.share(c.n(100000, 10000000));
    for(uint64_t i = 0; i < m; ++i) c.run_check(MS, (i & 1) ? c.rng.logu() : (int64_t)3037000499ll + c.rng.range(-100000, 100000)); } // round sqrt(2^63)
  for(int64_t a : L) for(int64_t b : L) if(c.mine(idx++)) c.run_check(M, a, b);
  const i128 T[] = { P63, -P63, P63 - 1, -P63 - 1, (i128)RAW_MAX * 65536, (i128)RAW_LOWEST * 65536, (i128)RAW_MAX * 65536 + 65536, (i128)1 << 79, -((i128)1 << 79), (i128)1 << 62 };
  uint64_t n = c.share(c.n(600000, 60000000));
  for(uint64_t i = 0; i < n; ++i)
    {
    int64_t a = c.rng.logu(62);
    c.run_check(M, a, mul_complement(c.rng, a, T[c.rng.below(10)]));
    }
  n = c.share(c.n(400000, 40000000));
  for(uint64_t i = 0; i < n; ++i)
    {
    // bit lengths summing to 40..100
    int total = 40 + (int)c.rng.below(61), la = 1 + (int)c.rng.below(63); int lb = total - la; if(lb < 1) lb = 1; if(lb > 63) lb = 63;
    int64_t a = (int64_t)((c.rng.next() >> (64 - la)) | (1ull << (la - 1))), b = (int64_t)((c.rng.next() >> (64 - lb)) | (1ull << (lb - 1)));
    if(a > RAW_MAX) a = RAW_MAX; if(b > RAW_MAX) b = RAW_MAX;
    if(c.rng.next() & 1) a = -a; if(c.rng.next() & 1) b = -b;
    c.run_check(M, a, b);
    }
  // scalar multiply for the eight integral types
  for(int ti = 0; ti < N_INT; ++ti)
    {
    const Check & K = P_C02.checks[ti < 8 ? 1 + ti : 11 + (ti - 8)]; const IntType & t = INT_TYPES[ti];
    idx = 0;
    if(t.bits <= 16)
      { // every value of the type x small lattice (quick: 8 bit types complete, 16 bit strided by 7 plus limits)
      const auto & S = lattice_small();
      int64_t step = (t.bits == 16 && !c.thorough) ? 7 : 1;
      for(int64_t v = (int64_t)t.lo; v <= (int64_t)t.hi; v += step) for(int64_t a : S) if(c.mine(idx++)) c.run_check(K, a, v);
      for(int64_t a : S) { c.run_check(K, a, (int64_t)t.lo); c.run_check(K, a, (int64_t)t.hi); }
      }
    uint64_t m = c.share(c.n(60000, 6000000));
    for(uint64_t i = 0; i < m; ++i)
      {
      int64_t nraw = random_of_type(c.rng, t); i128 nv = int_value(t, nraw); int64_t a;
      switch(c.rng.below(3))
        {
        case 0: a = L[c.rng.below(L.size())]; break;
        case 1: a = nv == 0 ? c.rng.logu() : clamp_finite((c.rng.next() & 1 ? P63 : -P63) / nv + c.rng.range(-3, 3)); break;
        default: a = c.rng.logu();
        }
      c.run_check(K, a, nraw);
      }
    }
  }
Property P_C02 = { "C02", c02_init, c02_run,
  { { "mul", j_mul, "a*b over mul_ff, muleq_ff, fn_mul_ff; a,b raw" },
    { "mul_i8", j_mul_int<0>, "fixed*int8, int8*fixed, *=; a raw, b scalar" }, { "mul_i16", j_mul_int<1>, "" }, { "mul_i32", j_mul_int<2>, "" }, { "mul_i64", j_mul_int<3>, "" },
    { "mul_u8", j_mul_int<4>, "" }, { "mul_u16", j_mul_int<5>, "" }, { "mul_u32", j_mul_int<6>, "" }, { "mul_u64", j_mul_int<7>, "b holds the uint64 bit pattern" },
    { "mul_self", j_mul_self, "x *= x on one object (directly and through two references); a raw" },
    { "mul_const", j_mul_const, "a*K, K*a, a*=K with a literal integer K at the call site (2,3,4,-1,0,65536,2^20,uint16 8,1000000007,uint64 2^63+1); a raw, b index of K" },
    { "mul_ll", j_mul_int<8>, "long long scalar (a distinct type from int64_t)" }, { "mul_ull", j_mul_int<9>, "unsigned long long scalar; b holds the bit pattern" },
    { "reassign", judge_reassign, "a*b computed twice in one function with one operand object modified in between; c = shape 4..5" } },
  { "exact-factor-pair", "constant-scalar-multiplier", "aliased-multiply", "product-fits-int64", "product-outside-range", "product-between", "negative-inexact", "scalar-in-range", "scalar-out-of-range", "scalar-beyond-2^31", "u64-scalar>=2^63" },
  "raw product within 2^40 of the int64 frontier or not fitting int64 (fixed*fixed); scalar product within 2^32 of 2^63 or out of range; distinct by (a,b[,type])", {}, {} };
Registrar R_C02(&P_C02);

// ============================================================================================ C03
std::vector<Fn> DIV;
struct DivInt { Fn fT, eq; };
DivInt DIVI[N_INT];
void j_div(Ctx & c, int64_t a, int64_t b, int64_t)
  {
  if(!model_finite(a) || !model_finite(b)) return;
  i128 aa = a < 0 ? -(i128)a : (i128)a;
  bool small = aa < ((i128)1 << 47);
  c.stratum(b == 0 ? "zero-divisor" : (small ? "dividend<2^31" : "dividend>=2^31"));
  if(b == -1 || b == 1) c.stratum("divisor=+-1raw");
  if(b != 0 && (((u128)(uint64_t)a << 16) & (((u128)1 << 63) - 1)) == 0 && a != 0) c.stratum("preshift-low63-zero");
  if(b == 0 || !small || aa >= ((i128)1 << 46) || b == -1) c.nontrivial(hash3(3, a, b));
  for(auto & f : DIV)
    for(size_t ci = 0; ci < g_cfgs.size(); ++ci)
      {
      CallRes r = c.call(f.f[ci], a, b);
      if(r.sig) { c.signal_event((int)ci, f.entry.c_str(), a, b, r.sig); continue; }
      if(b == 0) { if(!model_isnan(r.v)) c.violation(f.entry + "/zero-divisor/not-nan", (int)ci, a, b, 0, i2s(r.v), "NaN"); continue; }
      if(model_isnan(r.v)) { if(small) c.violation(f.entry + "/|a|<2^31/nan", (int)ci, a, b, 0, i2s(r.v), "quotient"); continue; }
      i128 d = (i128)r.v * b - (i128)a * 65536; if(d < 0) d = -d; i128 ab = b < 0 ? -(i128)b : (i128)b;
      if(d > ab || !model_finite(r.v))
        c.violation(f.entry + (small ? "/|a|<2^31/wrong-quotient" : "/|a|>=2^31/wrong-quotient"), (int)ci, a, b, 0, i2s(r.v), "NaN or within 2^-16 of " + i2s(a) + "/" + i2s(b));
      }
  }
template<int TI> void j_div_int(Ctx & c, int64_t a, int64_t nraw, int64_t)
  {
  if(!model_finite(a)) return;
  const IntType & t = INT_TYPES[TI];
  i128 nv = int_value(t, nraw);
  c.stratum(nv == 0 ? "scalar-zero-divisor" : "scalar-divisor");
  if(nv == -1) c.stratum("scalar-divisor=-1");
  if(!t.is_signed && t.bits == 64 && nv >= P63) c.stratum("u64-divisor>=2^63");
  if(nv == 0 || nv == -1 || nv > 2147483647 || nv < -2147483647) c.nontrivial(hash3(30 + TI, a, nraw));
  i128 q = 0, fl = 0;
  if(nv != 0) { q = (i128)a / nv; fl = q; if(((i128)a % nv != 0) && (((i128)a < 0) != (nv < 0))) fl = q - 1; }
  for(Fn * f : { &DIVI[TI].fT, &DIVI[TI].eq })
    for(size_t ci = 0; ci < g_cfgs.size(); ++ci)
      {
      CallRes r = c.call(f->f[ci], a, nraw);
      if(r.sig) { c.signal_event((int)ci, f->entry.c_str(), a, nraw, r.sig); continue; }
      if(nv == 0) { if(!model_isnan(r.v)) c.violation(f->entry + "/zero-divisor/not-nan", (int)ci, a, nraw, 0, i2s(r.v), "NaN"); continue; }
      if((i128)r.v != q && (i128)r.v != fl) c.violation(f->entry + "/wrong-quotient", (int)ci, a, nraw, 0, i2s(r.v), i128s(q));
      }
  }
void j_div_const(Ctx & c, int64_t a, int64_t which, int64_t)
  {
  if(!model_finite(a) || which < 0 || which >= (int64_t)KS.size()) return;
  KScalar & k = KS[(size_t)which];
  c.stratum("constant-scalar-divisor"); if(k.K == 0 || k.K == -1) c.nontrivial(hash3(38, a, which));
  i128 q = 0, fl = 0;
  if(k.K != 0) { q = (i128)a / k.K; fl = q; if(((i128)a % k.K != 0) && ((a < 0) != (k.K < 0))) fl = q - 1; }
  for(Fn * f : { &k.div_k, &k.diveq_k })
    for(size_t ci = 0; ci < g_cfgs.size(); ++ci)
      {
      CallRes r = c.call(f->f[ci], a, 0);
      if(r.sig) { c.signal_event((int)ci, f->entry.c_str(), a, which, r.sig); continue; }
      if(k.K == 0) { if(!model_isnan(r.v)) c.violation(f->entry + "/zero-divisor/not-nan", (int)ci, a, which, 0, i2s(r.v), "NaN"); continue; }
      if((i128)r.v != q && (i128)r.v != fl) c.violation(f->entry + "/wrong-quotient", (int)ci, a, which, 0, i2s(r.v), i128s(q));
      }
  }
void j_div_i128(Ctx & c, int64_t a, int64_t enc, int64_t)
  {
  if(!model_finite(a) || (enc & 0x80)) return;
  i128 nv = dec_i128(enc);
  c.stratum(nv == 0 ? "int128-zero-divisor" : (((nv < 0 ? -nv : nv) >= ((i128)1 << 64)) ? "int128-divisor>=2^64" : "int128-divisor")); c.nontrivial(hash3(37, a, enc));
  i128 q = 0, fl = 0;
  if(nv != 0) { q = (i128)a / nv; fl = q; if(((i128)a % nv != 0) && ((a < 0) != (nv < 0))) fl = q - 1; }
  for(Fn * f : { &DIV_I128[0], &DIV_I128[1] })
    for(size_t ci = 0; ci < g_cfgs.size(); ++ci)
      {
      if(I128_SUP.f[ci](0, 0) == 0) continue;
      CallRes r = c.call(f->f[ci], a, enc);
      if(r.sig) { c.signal_event((int)ci, f->entry.c_str(), a, enc, r.sig); continue; }
      if(nv == 0) { if(!model_isnan(r.v)) c.violation(f->entry + "/zero-divisor/not-nan", (int)ci, a, enc, 0, i2s(r.v), "NaN"); continue; }
      if((i128)r.v != q && (i128)r.v != fl) c.violation(f->entry + "/wrong-quotient", (int)ci, a, enc, 0, i2s(r.v), i128s(q));
      }
  }
Fn DIV_SELF[2];
void j_div_self(Ctx & c, int64_t a, int64_t, int64_t)
  {
  if(!model_finite(a)) return;
  c.stratum("aliased-divide");
  i128 aa = a < 0 ? -(i128)a : (i128)a; bool small = aa < ((i128)1 << 47);
  for(int k = 0; k < 2; ++k)
    for(size_t ci = 0; ci < g_cfgs.size(); ++ci)
      {
      CallRes r = c.call(DIV_SELF[k].f[ci], a, 0);
      if(r.sig) { c.signal_event((int)ci, DIV_SELF[k].entry.c_str(), a, 0, r.sig); continue; }
      if(a == 0) { if(!model_isnan(r.v)) c.violation(DIV_SELF[k].entry + "/zero-divisor/not-nan", (int)ci, a, 0, 0, i2s(r.v), "NaN"); continue; }
      if(model_isnan(r.v) ? small : r.v != ONE) c.violation(DIV_SELF[k].entry + "/x/x-not-one", (int)ci, a, 0, 0, i2s(r.v), small ? "65536" : "65536 or NaN");
      }
  }
void c03_init()
  {
  reassign_setup();
  DIV_SELF[0] = resolve("diveq_self"); DIV_SELF[1] = resolve("diveq_ref_self"); ks_init();
  I128_SUP = resolve("i128_supported"); DIV_I128[0] = resolve("div_fi128"); DIV_I128[1] = resolve("diveq_fi128");
  DIV = { resolve("div_ff"), resolve("diveq_ff"), resolve("fn_div_ff") };
  for(int i = 0; i < N_INT; ++i) { std::string t = INT_TYPES[i].tag; DIVI[i] = { resolve(("div_f" + t).c_str()), resolve(("diveq_f" + t).c_str()) }; }
  }
extern Property P_C03;
void c03_run(Ctx & c)
  {
  { const Check & RA = P_C03.checks[P_C03.checks.size() - 1]; const auto & LL = lattice(); uint64_t ridx = 0;
    for(int64_t k = 6; k <= 7; ++k)
      {
      for(int64_t a : LL) if(c.mine(ridx++)) c.run_check(RA, a, LL[(ridx * 11) % LL.size()], k);
      uint64_t m = c.share(c.n(20000, 2000000)); for(uint64_t i = 0; i < m; ++i) c.run_check(RA, c.rng.logu(), c.rng.logu(), k);
      } }
  const Check & D = P_C03.checks[0], & DS = P_C03.checks[9], & DK = P_C03.checks[10];
  const auto & L = lattice();
  uint64_t idx = 0;
  { const Check & DI = P_C03.checks[P_C03.checks.size() - 2]; const auto & BI = boundary(K_I128); uint64_t ii = 0;
    for(int64_t a : lattice_small()) for(int64_t e : BI) if(c.mine(ii++)) c.run_check(DI, a, e);
    uint64_t m = c.share(c.n(40000, 4000000)); for(uint64_t i = 0; i < m; ++i) c.run_check(DI, c.rng.logu(), random_of_kind(c.rng, K_I128)); }
  for(size_t k = 0; k < KS.size(); ++k)
    {
    for(int64_t a : L) if(c.mine(idx++)) c.run_check(DK, a, (int64_t)k);
    uint64_t m = c.share(c.n(20000, 2000000)); for(uint64_t i = 0; i < m; ++i) c.run_check(DK, c.rng.logu(), (int64_t)k);
    }
  for(int64_t a : L) if(c.mine(idx++)) c.run_check(DS, a);
  { uint64_t m = c.share(c.n(100000, 10000000)); for(uint64_t i = 0; i < m; ++i) c.run_check(DS, c.rng.logu()); }
  for(int64_t a : L) for(int64_t b : L) if(c.mine(idx++)) c.run_check(D, a, b);
  // trap pattern: (a << 16) with low 63 bits zero, divisor -1 raw and neighbours
  if(c.shard == 0)
    for(int k = 47; k <= 62; ++k) for(int s = -1; s <= 1; s += 2) for(int64_t b : { (int64_t)-1, (int64_t)1, (int64_t)-2, (int64_t)-65536, (int64_t)3 })
      for(int j = -1; j <= 1; ++j) c.run_check(D, s * ((1ll << k) + j), b);
  uint64_t n = c.share(c.n(500000, 50000000));
  for(uint64_t i = 0; i < n; ++i)
    {
    int64_t a, b;
    switch(c.rng.below(6))
      {
      case 0: a = c.rng.logu(47); b = c.rng.logu(); break;                       // |a| < 2^31
      case 1: a = (1ll << 47) + c.rng.range(-70000, 70000); if(c.rng.next() & 1) a = -a; b = c.rng.logu(); break; // pre-shift frontier
      case 2: a = c.rng.logu(); b = c.rng.range(-4, 4); break;
      case 3: { b = c.rng.logu(48); a = c.rng.logu(47); i128 T = (c.rng.next() & 1) ? P63 : -P63; if(b != 0) { i128 x = T * (i128)b / 65536 + c.rng.range(-3, 3); a = clamp_finite(x); } break; } // quotient near 2^63
      case 4: a = c.rng.logu(47); b = c.rng.logu(20); break;
      default: a = c.rng.logu(); b = c.rng.logu();
      }
    c.run_check(D, a, b);
    }
  for(int ti = 0; ti < N_INT; ++ti)
    {
    const Check & K = P_C03.checks[ti < 8 ? 1 + ti : 11 + (ti - 8)]; const IntType & t = INT_TYPES[ti];
    idx = 0;
    if(t.bits <= 16)
      {
      const auto & S = lattice_small();
      int64_t step = (t.bits == 16 && !c.thorough) ? 7 : 1;
      for(int64_t v = (int64_t)t.lo; v <= (int64_t)t.hi; v += step) for(int64_t a : S) if(c.mine(idx++)) c.run_check(K, a, v);
      for(int64_t a : S) { c.run_check(K, a, (int64_t)t.lo); c.run_check(K, a, (int64_t)t.hi); c.run_check(K, a, 0); if(t.is_signed) c.run_check(K, a, -1); }
      }
    uint64_t m = c.share(c.n(60000, 6000000));
    for(uint64_t i = 0; i < m; ++i)
      {
      int64_t nraw = random_of_type(c.rng, t);
      int64_t a = (c.rng.next() & 1) ? L[c.rng.below(L.size())] : c.rng.logu();
      c.run_check(K, a, nraw);
      }
    }
  }
Property P_C03 = { "C03", c03_init, c03_run,
  { { "div", j_div, "a/b over div_ff, diveq_ff, fn_div_ff; a,b raw" },
    { "div_i8", j_div_int<0>, "fixed/int8 and /=; a raw, b scalar" }, { "div_i16", j_div_int<1>, "" }, { "div_i32", j_div_int<2>, "" }, { "div_i64", j_div_int<3>, "" },
    { "div_u8", j_div_int<4>, "" }, { "div_u16", j_div_int<5>, "" }, { "div_u32", j_div_int<6>, "" }, { "div_u64", j_div_int<7>, "b holds the uint64 bit pattern" },
    { "div_self", j_div_self, "x /= x on one object (directly and through two references); a raw" },
    { "div_const", j_div_const, "a/K, a/=K with a literal integer K at the call site; a raw, b index of K" },
    { "div_ll", j_div_int<8>, "long long divisor" }, { "div_ull", j_div_int<9>, "unsigned long long divisor; b holds the bit pattern" },
    { "div_i128", j_div_i128, "fixed / __int128 and /= in the GNU-dialect configurations; a raw, b = (mantissa << 8) | shift" },
    { "reassign", judge_reassign, "a/b computed twice in one function with one operand object modified in between; c = shape 6..7" } },
  { "constant-scalar-divisor", "aliased-divide", "zero-divisor", "dividend<2^31", "dividend>=2^31", "divisor=+-1raw", "preshift-low63-zero", "scalar-zero-divisor", "scalar-divisor", "scalar-divisor=-1", "u64-divisor>=2^63" },
  "zero divisor, divisor -1, |a| >= 2^46 raw (at or beyond the pre-shift frontier), scalar divisor 0/-1/beyond 2^31; distinct by (a,b[,type])", {}, {} };
Registrar R_C03(&P_C03);

// ============================================================================================ C06
Fn LT, LE, GT, GE, EQ, NE, ISNAN, NEG, ABS;
void j_cmp(Ctx & c, int64_t a, int64_t b, int64_t)
  {
  struct { Fn * f; bool e; } v[] = { { &LT, a < b }, { &LE, a <= b }, { &GT, a > b }, { &GE, a >= b }, { &EQ, a == b }, { &NE, a != b } };
  if(model_isnan(a) || model_isnan(b)) { c.stratum("cmp-with-nan"); c.nontrivial(hash3(6, a, b)); } else c.stratum("cmp-finite");
  if(a == b) c.stratum("cmp-equal");
  for(auto & x : v)
    for(size_t ci = 0; ci < g_cfgs.size(); ++ci)
      {
      CallRes r = c.call(x.f->f[ci], a, b);
      if(r.sig) { c.signal_event((int)ci, x.f->entry.c_str(), a, b, r.sig); continue; }
      if((r.v != 0) != x.e) c.violation(x.f->entry + "/wrong-order", (int)ci, a, b, 0, i2s(r.v), x.e ? "true" : "false");
      }
  }
void j_unary(Ctx & c, int64_t a, int64_t, int64_t)
  {
  if(a == INT64_MIN) return; // not a fixed_t value
  bool nan = model_isnan(a);
  c.stratum(nan ? "unary-nan" : "unary-finite");
  if(nan || a == RAW_MAX || a == RAW_LOWEST || a == 0) c.nontrivial(hash3(61, a, 0));
  for(size_t ci = 0; ci < g_cfgs.size(); ++ci)
    {
    CallRes r = c.call(ISNAN.f[ci], a, 0);
    if(r.sig) c.signal_event((int)ci, "isnan", a, 0, r.sig);
    else if((r.v != 0) != nan) c.violation(std::string("isnan/") + (nan ? "nan-not-recognised" : "finite-reported-nan"), (int)ci, a, 0, 0, i2s(r.v), nan ? "true" : "false");
    if(nan) continue;
    CallRes n1 = c.call(NEG.f[ci], a, 0);
    if(n1.sig) { c.signal_event((int)ci, "neg", a, 0, n1.sig); continue; }
    if(n1.v != -a) c.violation("neg/wrong-value", (int)ci, a, 0, 0, i2s(n1.v), i2s(-a));
    CallRes n2 = c.call(NEG.f[ci], n1.v, 0);
    if(!n2.sig && n2.v != a) c.violation("neg/double-negation", (int)ci, a, 0, 0, i2s(n2.v), i2s(a));
    CallRes ab = c.call(ABS.f[ci], a, 0), abn = c.call(ABS.f[ci], -a, 0);
    if(ab.sig || abn.sig) { c.signal_event((int)ci, "abs", a, 0, ab.sig ? ab.sig : abn.sig); continue; }
    int64_t e = a < 0 ? -a : a;
    if(ab.v != e) c.violation("abs/wrong-value", (int)ci, a, 0, 0, i2s(ab.v), i2s(e));
    if(abn.v != ab.v) c.violation("abs/not-even", (int)ci, a, 0, 0, i2s(abn.v), i2s(ab.v));
    if(ab.v < 0 || !model_finite(ab.v) || !model_finite(n1.v)) c.violation("abs-neg/not-finite", (int)ci, a, 0, 0, i2s(ab.v), "finite >= 0");
    }
  }
Fn LIM_MAX, LIM_LOWEST, LIM_NAN;
// The range of finite values is what the library's own numeric_limits says it is: lowest() and max() must themselves be
// finite (not a NaN sentinel), negation and abs must map them to finite values (which forces lowest() == -max()), and the
// reported quiet_NaN must be recognised by isnan and sit above max().
void j_limits(Ctx & c, int64_t, int64_t, int64_t)
  {
  c.stratum("numeric-limits"); c.nontrivial(hash3(61, 0, 0));
  for(size_t ci = 0; ci < g_cfgs.size(); ++ci)
    {
    CallRes mx = c.call(LIM_MAX.f[ci], 0, 0), lo = c.call(LIM_LOWEST.f[ci], 0, 0), nn = c.call(LIM_NAN.f[ci], 0, 0);
    if(mx.sig || lo.sig || nn.sig) { c.signal_event((int)ci, "numeric_limits", 0, 0, mx.sig ? mx.sig : (lo.sig ? lo.sig : nn.sig)); continue; }
    auto call1 = [&](Fn & f, int64_t x) { CallRes r = c.call(f.f[ci], x, 0); return r.sig ? INT64_MIN : r.v; };
    auto call2 = [&](Fn & f, int64_t x, int64_t y) { CallRes r = c.call(f.f[ci], x, y); return r.sig ? INT64_MIN : r.v; };
    if(call1(ISNAN, mx.v) != 0 || model_isnan(mx.v)) c.violation("limits_max/is-a-nan-sentinel", (int)ci, mx.v, 0, 0, i2s(mx.v), "a finite value");
    if(call1(ISNAN, lo.v) != 0 || model_isnan(lo.v)) c.violation("limits_lowest/is-a-nan-sentinel", (int)ci, lo.v, 0, 0, i2s(lo.v), "a finite value");
    if(call1(ISNAN, nn.v) != 1) c.violation("limits_nan/not-recognised-by-isnan", (int)ci, nn.v, 0, 0, i2s(nn.v), "isnan(quiet_NaN()) true");
    if(call1(NEG, lo.v) != mx.v || call1(NEG, mx.v) != lo.v) c.violation("limits/negation-leaves-the-finite-range", (int)ci, lo.v, mx.v, 0, i2s(call1(NEG, lo.v)) + "," + i2s(call1(NEG, mx.v)), "-lowest() == max() and -max() == lowest()");
    if(call1(ABS, lo.v) != mx.v) c.violation("limits/abs-leaves-the-finite-range", (int)ci, lo.v, 0, 0, i2s(call1(ABS, lo.v)), i2s(mx.v));
    if(call2(LT, lo.v, mx.v) != 1 || call2(GT, nn.v, mx.v) != 1) c.violation("limits/not-ordered", (int)ci, lo.v, mx.v, 0, "lowest<max: " + i2s(call2(LT, lo.v, mx.v)) + ", NaN>max: " + i2s(call2(GT, nn.v, mx.v)), "lowest() < max() < quiet_NaN()");
    }
  }
void c06_init() { LIM_MAX = resolve("limits_max"); LIM_LOWEST = resolve("limits_lowest"); LIM_NAN = resolve("limits_nan"); LT = resolve("cmp_lt"); LE = resolve("cmp_le"); GT = resolve("cmp_gt"); GE = resolve("cmp_ge"); EQ = resolve("cmp_eq"); NE = resolve("cmp_ne"); ISNAN = resolve("isnan"); NEG = resolve("neg"); ABS = resolve("abs"); }
extern Property P_C06;
void c06_run(Ctx & c)
  {
  const Check & CMP = P_C06.checks[0], & UN = P_C06.checks[1];
  if(c.shard == 0) c.run_check(P_C06.checks[2], 0);
  std::vector<int64_t> L = lattice_with({ RAW_NAN, RAW_NNAN, INT64_MIN });
  uint64_t idx = 0;
  for(int64_t a : L) for(int64_t b : L) if(c.mine(idx++)) c.run_check(CMP, a, b);
  for(int64_t a : L) if(a != INT64_MIN && c.mine(idx++)) c.run_check(UN, a);
  uint64_t n = c.share(c.n(1000000, 100000000));
  for(uint64_t i = 0; i < n; ++i)
    {
    int64_t a = (int64_t)c.rng.next(), b;
    switch(c.rng.below(4)) { case 0: b = a + c.rng.range(-2, 2); break; case 1: b = c.rng.logu(); break; case 2: b = (c.rng.next() & 1) ? RAW_NAN : RAW_NNAN; break; default: b = (int64_t)c.rng.next(); }
    c.run_check(CMP, a, b);
    int64_t u = (i & 1) ? c.rng.logu() : c.rng.finite();
    c.run_check(UN, u);
    }
  }
Property P_C06 = { "C06", c06_init, c06_run,
  { { "cmp", j_cmp, "six comparison operators against int64 comparison of raws; a,b any 64-bit raw (both sentinels, INT64_MIN included)" },
    { "unary", j_unary, "isnan on any raw; -x, -(-x), abs(x), abs(-x) on finite raws" },
    { "limits", j_limits, "numeric_limits<fixed_t>: lowest() and max() are finite, closed under negation and abs, ordered below quiet_NaN(), which isnan recognises" } },
  { "numeric-limits", "cmp-with-nan", "cmp-finite", "cmp-equal", "unary-nan", "unary-finite" },
  "comparison involving a NaN sentinel; unary argument NaN, max(), lowest() or 0; distinct by (a,b)", {}, {} };
Registrar R_C06(&P_C06);

// ============================================================================================ C15
Fn FLOOR, CEIL;
void j_floor_ceil(Ctx & c, int64_t x, int64_t, int64_t)
  {
  const i128 LIM = (((i128)1 << 47) - 1) * 65536;
  i128 ax = x < 0 ? -(i128)x : (i128)x;
  if(!(ax < LIM)) return;
  bool integer = (x & 0xffff) == 0;
  c.stratum(integer ? "integer-argument" : (x < 0 ? "negative-fraction" : "positive-fraction"));
  if(integer || ax > LIM - 3 * 65536) c.nontrivial(hash3(15, x, 0));
  i128 fe = (i128)x - (x & 0xffff);           // floor
  i128 ce = integer ? (i128)x : fe + 65536;   // ceil
  for(size_t ci = 0; ci < g_cfgs.size(); ++ci)
    {
    CallRes f = c.call(FLOOR.f[ci], x, 0), g = c.call(CEIL.f[ci], x, 0), fn = c.call(FLOOR.f[ci], -x, 0);
    if(f.sig || g.sig || fn.sig) { c.signal_event((int)ci, f.sig ? "floor" : "ceil", x, 0, f.sig ? f.sig : (g.sig ? g.sig : fn.sig)); continue; }
    if((i128)f.v != fe) c.violation(std::string("floor/") + (integer ? "integer-argument" : "fraction") + (model_isnan(f.v) ? "/nan" : "/wrong-value"), (int)ci, x, 0, 0, i2s(f.v), i128s(fe));
    if((i128)g.v != ce) c.violation(std::string("ceil/") + (integer ? "integer-argument" : "fraction") + (model_isnan(g.v) ? "/nan" : "/wrong-value"), (int)ci, x, 0, 0, i2s(g.v), i128s(ce));
    if(!model_isnan(g.v) && !model_isnan(fn.v) && g.v != -fn.v) c.violation("ceil/not-minus-floor-minus", (int)ci, x, 0, 0, i2s(g.v), i2s(-fn.v));
    }
  }
// The same relations evaluated the way a user program evaluates them: with the library's own comparison, negation, + - and
// += -= operators (a defect in one of those breaks "floor(x) <= x < floor(x)+1" as observed by every caller)
Fn R_LE, R_LT, R_EQ, R_NEG, R_ADD, R_SUB, R_ADDEQ, R_SUBEQ;
void j_floor_ceil_rel(Ctx & c, int64_t x, int64_t, int64_t)
  {
  const i128 LIM = (((i128)1 << 47) - 1) * 65536;
  i128 ax = x < 0 ? -(i128)x : (i128)x;
  if(!(ax < LIM)) return;
  c.stratum("relations-with-library-operators");
  for(size_t ci = 0; ci < g_cfgs.size(); ++ci)
    {
    auto call = [&](Fn & f, int64_t p, int64_t q, bool & bad) { CallRes r = c.call(f.f[ci], p, q); if(r.sig) { c.signal_event((int)ci, f.entry.c_str(), p, q, r.sig); bad = true; return (int64_t)0; } return r.v; };
    bool bad = false;
    int64_t fl = call(FLOOR, x, 0, bad), ce = call(CEIL, x, 0, bad); if(bad || model_isnan(fl) || model_isnan(ce)) continue;
    auto fail = [&](const char * what, int64_t got) { c.violation(std::string("floor_ceil/evaluated-with-library-operators/") + what, (int)ci, x, 0, 0, i2s(got), "true"); };
    if(call(R_LE, fl, x, bad) != 1) fail("floor(x)<=x", 0);
    if(call(R_LE, x, ce, bad) != 1) fail("x<=ceil(x)", 0);
    int64_t up = call(R_ADD, fl, ONE, bad), dn = call(R_SUB, ce, ONE, bad), up2 = call(R_ADDEQ, fl, ONE, bad), dn2 = call(R_SUBEQ, ce, ONE, bad);
    if(!model_isnan(up) && call(R_LT, x, up, bad) != 1) fail("x<floor(x)+1", up);
    if(!model_isnan(dn) && call(R_LT, dn, x, bad) != 1) fail("ceil(x)-1<x", dn);
    if(up2 != up) fail("floor(x)+=1-equals-floor(x)+1", up2);
    if(dn2 != dn) fail("ceil(x)-=1-equals-ceil(x)-1", dn2);
    int64_t nx = call(R_NEG, x, 0, bad); int64_t fnx = call(FLOOR, nx, 0, bad); int64_t nfnx = call(R_NEG, fnx, 0, bad);
    if(!bad && call(R_EQ, ce, nfnx, bad) != 1) fail("ceil(x)==-floor(-x)", nfnx);
    }
  }
void c15_init()
  {
  FLOOR = resolve("floor"); CEIL = resolve("ceil");
  R_LE = resolve("cmp_le"); R_LT = resolve("cmp_lt"); R_EQ = resolve("cmp_eq"); R_NEG = resolve("neg"); R_ADD = resolve("add_ff"); R_SUB = resolve("sub_ff"); R_ADDEQ = resolve("addeq_ff"); R_SUBEQ = resolve("subeq_ff");
  }
extern Property P_C15;
void c15_run(Ctx & c)
  {
  const Check & K = P_C15.checks[0], & REL = P_C15.checks[1];
  int64_t W = c.thorough ? (1ll << 24) : (1ll << 21);
  for(int64_t x = -W + c.shard; x <= W; x += c.nshards) { c.run_check(K, x); if((x & 63) == 0 || (x & 63) == 17) c.run_check(REL, x); }
  int64_t NI = c.thorough ? (1ll << 22) : (1ll << 18);
  for(int64_t n = -NI + c.shard; n <= NI; n += c.nshards) c.run_check(K, n * 65536);
  uint64_t idx = 0;
  for(int64_t x : lattice()) if(c.mine(idx++)) { c.run_check(K, x); c.run_check(K, x & ~0xffffll); c.run_check(REL, x); c.run_check(REL, x & ~0xffffll); }
  const int64_t LIM = (int64_t)((((i128)1 << 47) - 1) * 65536);
  for(int64_t d = c.shard; d < 300000; d += c.nshards) { c.run_check(K, LIM - 1 - d); c.run_check(K, -(LIM - 1 - d)); }
  uint64_t n = c.share(c.n(1000000, 100000000));
  for(uint64_t i = 0; i < n; ++i) { int64_t x = c.rng.logu(); c.run_check(K, x); if((i & 7) == 0) { c.run_check(K, x & ~0xffffll); c.run_check(REL, x); c.run_check(REL, x & ~0xffffll); } }
  }
Property P_C15 = { "C15", c15_init, c15_run,
  { { "floor_ceil", j_floor_ceil, "floor(x), ceil(x), ceil(x) == -floor(-x); a raw with |x| < 2^47-1" },
    { "relations", j_floor_ceil_rel, "floor(x) <= x < floor(x)+1, ceil(x)-1 < x <= ceil(x), ceil(x) == -floor(-x) evaluated with the library's own <=, <, ==, unary -, +, -, +=, -=; a raw" } },
  { "relations-with-library-operators", "integer-argument", "negative-fraction", "positive-fraction" },
  "integer-valued argument, or within 3.0 of the +-(2^47-1) domain limit; distinct by x",
  { "every raw x in [-2^21, 2^21]", "every integer n*65536 with |n| <= 2^18" }, { "every raw x in [-2^24, 2^24]", "every integer n*65536 with |n| <= 2^22" } };
Registrar R_C15(&P_C15);

// ============================================================================================ C18
Fn SHL, SHR, AND;
void j_shift(Ctx & c, int64_t x, int64_t r, int64_t)
  {
  if(r > 63 || r < (int64_t)INT32_MIN || !model_finite(x)) return;
  c.stratum(r < 0 ? "negative-count" : (r == 0 ? "count=0" : (r == 63 ? "count=63" : "count-1..62")));
  for(size_t ci = 0; ci < g_cfgs.size(); ++ci)
    {
    CallRes l = c.call(SHL.f[ci], x, r), rr = c.call(SHR.f[ci], x, r);
    if(l.sig || rr.sig) { c.signal_event((int)ci, l.sig ? "shl" : "shr", x, r, l.sig ? l.sig : rr.sig); continue; }
    if(r < 0)
      {
      c.nontrivial(hash3(18, x, r));
      if(!model_isnan(l.v)) c.violation("shl/negative-count/not-nan", (int)ci, x, r, 0, i2s(l.v), "NaN");
      if(!model_isnan(rr.v)) c.violation("shr/negative-count/not-nan", (int)ci, x, r, 0, i2s(rr.v), "NaN");
      continue;
      }
    // floor(x / 2^r)
    i128 fl = (i128)x >> r;
    if((i128)rr.v != fl) c.violation("shr/wrong-value", (int)ci, x, r, 0, i2s(rr.v), i128s(fl));
    i128 p = (i128)x * ((i128)1 << r);
    if(p >= RAW_LOWEST && p <= RAW_MAX)
      { c.stratum("shl-in-range"); if((i128)l.v != p) c.violation("shl/in-range/wrong-value", (int)ci, x, r, 0, i2s(l.v), i128s(p)); }
    else
      {
      c.stratum("shl-out-of-range"); c.nontrivial(hash3(18, x, r));
      if((x > 0 && l.v < 0) || (x < 0 && l.v > 0)) c.violation("shl/out-of-range/opposite-sign", (int)ci, x, r, 0, i2s(l.v), "same sign as x or zero");
      }
    }
  }
void j_and(Ctx & c, int64_t x, int64_t y, int64_t)
  {
  c.stratum("and");
  for(size_t ci = 0; ci < g_cfgs.size(); ++ci)
    {
    CallRes r = c.call(AND.f[ci], x, y);
    if(r.sig) { c.signal_event((int)ci, "and_", x, y, r.sig); continue; }
    if(r.v != (x & y)) c.violation("and/wrong-value", (int)ci, x, y, 0, i2s(r.v), i2s(x & y));
    }
  }
Fn SHL_T[5], SHR_T[5];
const char * SHIFT_TAGS[5] = { "u32", "u8", "sz", "i64", "i16" };
// shift count carried by another static type than int; c = index into SHIFT_TAGS
void j_shift_typed(Ctx & c, int64_t x, int64_t r, int64_t k)
  {
  if(k < 0 || k > 4 || !model_finite(x) || r > 63) return;
  if(k != 3 && r < 0) return;                       // only the int64 count can carry a negative value
  if(k == 3 && r < (int64_t)INT32_MIN) return;
  c.stratum("typed-shift-count");
  for(size_t ci = 0; ci < g_cfgs.size(); ++ci)
    {
    CallRes l = c.call(SHL_T[k].f[ci], x, r), rr = c.call(SHR_T[k].f[ci], x, r);
    if(l.sig || rr.sig) { c.signal_event((int)ci, SHL_T[k].entry.c_str(), x, r, l.sig ? l.sig : rr.sig); continue; }
    if(r < 0) { if(!model_isnan(l.v) || !model_isnan(rr.v)) c.violation(SHL_T[k].entry + "/negative-count/not-nan", (int)ci, x, r, k, i2s(l.v), "NaN"); continue; }
    i128 fl = (i128)x >> r, p = (i128)x * ((i128)1 << r);
    if((i128)rr.v != fl) c.violation(SHR_T[k].entry + "/wrong-value", (int)ci, x, r, k, i2s(rr.v), i128s(fl));
    if(p >= RAW_LOWEST && p <= RAW_MAX) { if((i128)l.v != p) c.violation(SHL_T[k].entry + "/in-range/wrong-value", (int)ci, x, r, k, i2s(l.v), i128s(p)); }
    else if((x > 0 && l.v < 0) || (x < 0 && l.v > 0)) c.violation(SHL_T[k].entry + "/out-of-range/opposite-sign", (int)ci, x, r, k, i2s(l.v), "same sign as x or zero");
    }
  }
void c18_init() { for(int k = 0; k < 5; ++k) { SHL_T[k] = resolve((std::string("shl_") + SHIFT_TAGS[k]).c_str()); SHR_T[k] = resolve((std::string("shr_") + SHIFT_TAGS[k]).c_str()); } SHL = resolve("shl"); SHR = resolve("shr"); AND = resolve("and_"); }
extern Property P_C18;
void c18_run(Ctx & c)
  {
  const Check & S = P_C18.checks[0], & A = P_C18.checks[1], & ST = P_C18.checks[2];
  const auto & L = lattice();
  uint64_t idx = 0;
  for(int64_t k = 0; k < 5; ++k)
    {
    for(int64_t x : lattice_small()) for(int64_t r = (k == 3 ? -3 : 0); r <= 63; ++r) if(c.mine(idx++)) c.run_check(ST, x, r, k);
    uint64_t m = c.share(c.n(40000, 4000000)); for(uint64_t i = 0; i < m; ++i) c.run_check(ST, (i & 1) ? c.rng.logu() : c.rng.finite(), c.rng.range(0, 63), k);
    }
  for(int64_t x : L) for(int64_t r = -70; r <= 63; ++r) if(c.mine(idx++)) c.run_check(S, x, r);
  for(int64_t x : L) for(int64_t r : { (int64_t)INT32_MIN, (int64_t)INT32_MIN + 1, (int64_t)-65536, (int64_t)-64, (int64_t)-63, (int64_t)-1 }) if(c.mine(idx++)) c.run_check(S, x, r);
  for(int64_t a : L) for(int64_t b : L) if(c.mine(idx++)) c.run_check(A, a, b);
  uint64_t n = c.share(c.n(1000000, 100000000));
  for(uint64_t i = 0; i < n; ++i)
    {
    int64_t x = (i & 1) ? c.rng.logu() : c.rng.finite();
    int64_t r = (c.rng.below(8) == 0) ? c.rng.range(INT32_MIN, -1) : c.rng.range(0, 63);
    c.run_check(S, x, r);
    if((i & 3) == 0) c.run_check(A, c.rng.finite(), (c.rng.next() & 1) ? c.rng.logu() : c.rng.finite());
    }
  }
Property P_C18 = { "C18", c18_init, c18_run,
  { { "shift", j_shift, "x<<r and x>>r; a raw, b count in [INT_MIN,63]" }, { "and", j_and, "x&y; a,b raw" },
    { "shift_typed", j_shift_typed, "x<<r, x>>r with the count carried by unsigned, uint8_t, size_t, int64_t, short (c = 0..4); a raw, b count" } },
  { "negative-count", "count=0", "count=63", "count-1..62", "shl-in-range", "shl-out-of-range", "and" },
  "negative shift count, or left shift whose exact product leaves [lowest(),max()]; distinct by (x,r)",
  { "lattice x every count in [-70,63]" }, { "lattice x every count in [-70,63]" } };
Registrar R_C18(&P_C18);
}
void judge_mul_const(Ctx & c, int64_t a, int64_t which, int64_t d) { ks_init(); j_mul_const(c, a, which, d); }
void judge_div_const(Ctx & c, int64_t a, int64_t which, int64_t d) { ks_init(); j_div_const(c, a, which, d); }
size_t const_scalar_count() { ks_init(); return KS.size(); }
i128 const_scalar_value(size_t which) { ks_init(); return KS[which % KS.size()].K; }

// C07 (value-monitor arm: every entry point returns normally in every uninstrumented configuration) and
// C08 (differential monitor: bit-identical results across configurations; abacus vs std sqrt within 1 ulp).
// Both drive every wrapper entry point over its argument domain (gen.cc) in all loaded configurations.
#include "core.h"
#include "gen.h"
#include <mutex>
#include <set>
#include <unordered_map>
#include <unistd.h>

namespace
{
struct Entry { std::string name; Domain dom; Fn fn; bool sqrt_dependent; bool double_result; bool constexpr_claimed; bool gnu_only = false; };
Fn I128_OK;
inline bool cfg_has(const Entry & e, size_t ci) { return !e.gnu_only || I128_OK.f[ci](0, 0) != 0; }
std::vector<Entry> ENTRIES;
Fn SQ_AB, SQ_STD;
std::string g_points_path; // set through VERIF_POINTS (C08 only): sample points for the constant-evaluator arm

void reassign_init();
void build_fn_index();
void diff_init()
  {
  ENTRIES.clear();
  std::vector<std::string> names;
  for(auto & kv : g_cfgs[0].tab) names.push_back(kv.first);
  std::sort(names.begin(), names.end());
  static const std::set<std::string> rt_only = { "sqrt_std_math", "sin_angle_aprox", "cos_angle_aprox", "sqrt_aprox", "hypot_aprox", "atan_index_aprox", "atan_aprox", "sin_angle_tab", "cos_angle_tab", "tan_tab", "square_root_tab", "ostream" };
  for(auto & n : names)
    {
    Domain d;
    if(n == "cplusplus" || n == "sqrt_constexpr_available" || n == "i128_supported") continue; // harness helpers describing the configuration, not library behaviour
    if(!entry_domain(n, d)) { fprintf(stderr, "HARNESS-ERROR: wrapper entry %s has no argument domain\n", n.c_str()); _exit(2); }
    Entry e; e.name = n; e.dom = d; e.fn = resolve(n.c_str());
    e.sqrt_dependent = n == "sqrt" || n == "hypot" || n == "asin" || n == "acos" || n == "sqrt_reassign";
    e.double_result = n.find("f64") != std::string::npos && (n.rfind("cast_", 0) == 0 || n.rfind("f2a_", 0) == 0 || n.rfind("f2fp_", 0) == 0 || n.rfind("add_", 0) == 0 || n.rfind("sub_", 0) == 0 || n.rfind("mul_", 0) == 0 || n.rfind("div_", 0) == 0);
    e.gnu_only = n.find("i128") != std::string::npos; // __int128 operands exist only in GNU-dialect configurations
    bool typed_table_fn = n.rfind("sin_angle_aprox_", 0) == 0 || n.rfind("cos_angle_aprox_", 0) == 0 || n.rfind("sin_angle_tab_", 0) == 0 || n.rfind("cos_angle_tab_", 0) == 0;
    e.constexpr_claimed = !rt_only.count(n) && !typed_table_fn && n.find("_reassign") == std::string::npos && !e.gnu_only && n.rfind("sinit_", 0) != 0 && n.rfind("snow_", 0) != 0; // the stateful shapes use a volatile sink
    ENTRIES.push_back(e);
    }
  SQ_AB = resolve("sqrt_abacus"); SQ_STD = resolve("sqrt_std_math"); I128_OK = resolve("i128_supported"); reassign_init();
  build_fn_index();
  if(const char * p = getenv("VERIF_POINTS")) g_points_path = p;
  }
inline int64_t canon(const Entry & e, int64_t v) { if(e.double_result && std::isnan(bits2d(v))) return 0x7ff8000000000000ll; return v; }

// a = first argument, b = second argument, c = index of the entry point in the sorted entry list
void j_returns(Ctx & c, int64_t a, int64_t b, int64_t ei)
  {
  if(ei < 0) ei = -(ei + 1);
  ei %= (int64_t)ENTRIES.size(); // any index selects an entry point (fuzz arm)
  Entry & e = ENTRIES[(size_t)ei];
  if(!in_domain(e.dom.a, a) || !in_domain(e.dom.b, b)) return;
  for(size_t ci = 0; ci < g_cfgs.size(); ++ci)
    {
    if(!cfg_has(e, ci)) continue;
    CallRes r = c.call(e.fn.f[ci], a, b);
    if(r.sig) c.signal_event((int)ci, e.name.c_str(), a, b, r.sig);
    }
  }
void j_diff(Ctx & c, int64_t a, int64_t b, int64_t ei)
  {
  if(ei < 0 || ei >= (int64_t)ENTRIES.size()) return;
  Entry & e = ENTRIES[(size_t)ei];
  if(!in_domain(e.dom.a, a) || !in_domain(e.dom.b, b)) return;
  int64_t ref[3]; bool have[3] = { false, false, false }; int refci[3] = { 0, 0, 0 };
  for(size_t ci = 0; ci < g_cfgs.size(); ++ci)
    {
    if(!cfg_has(e, ci)) continue;
    CallRes r = c.call(e.fn.f[ci], a, b);
    if(r.sig) { c.signal_event((int)ci, e.name.c_str(), a, b, r.sig); continue; }
    int g = e.sqrt_dependent ? (g_cfgs[ci].sqrt_algo == 1 ? 1 : (g_cfgs[ci].sqrt_algo == 0 ? 0 : 2)) : 0;
    int64_t v = canon(e, r.v);
    if(!have[g]) { have[g] = true; ref[g] = v; refci[g] = (int)ci; }
    else if(v != ref[g]) c.violation(e.name + "/configurations-disagree", (int)ci, a, b, ei, i2s(v), i2s(ref[g]) + " in " + g_cfgs[(size_t)refci[g]].name);
    }
  }
struct Reassign { Fn shaped, plain; int which; }; // which: 0 unary (a^K), 1 right operand (b^K), 2 left operand (a^K)
std::vector<Reassign> REASSIGN;
void reassign_init()
  {
  REASSIGN.clear();
  for(const char * op : { "add", "sub", "mul", "div" })
    {
    std::string o = op;
    REASSIGN.push_back({ resolve((o + "_reassign").c_str()), resolve((o + "_ff").c_str()), 1 });
    REASSIGN.push_back({ resolve((o + "_reassign_l").c_str()), resolve((o + "_ff").c_str()), 2 });
    }
  for(const char * u : { "cast_i32", "cast_i64", "cast_u16", "cast_f64", "cast_f32", "neg", "abs", "isnan", "sin", "sqrt", "floor", "ceil" })
    REASSIGN.push_back({ resolve((std::string(u) + "_reassign").c_str()), resolve(u), 0 });
  }
// same operation twice in one function with an operand modified in between: the second result must be what the plain
// entry point returns for the modified operands (c = index of the shape)
void j_reassign(Ctx & c, int64_t a, int64_t b, int64_t which)
  {
  if(which < 0 || which >= (int64_t)REASSIGN.size() || a == INT64_MIN || b == INT64_MIN) return;
  Reassign & r = REASSIGN[(size_t)which];
  int64_t a2 = r.which == 1 ? a : (a ^ 0x5a5a), b2 = r.which == 1 ? (b ^ 0x5a5a) : b;
  if(a2 == INT64_MIN || b2 == INT64_MIN) return;
  if(r.which != 0 && r.plain.entry == "div_ff" && (!model_finite(a) || !model_finite(a2))) return;
  c.stratum("stateful-shape");
  for(size_t ci = 0; ci < g_cfgs.size(); ++ci)
    {
    CallRes s = c.call(r.shaped.f[ci], a, b), p = c.call(r.plain.f[ci], a2, r.which == 0 ? 0 : b2);
    if(s.sig || p.sig) { c.signal_event((int)ci, r.shaped.entry.c_str(), a, b, s.sig ? s.sig : p.sig); continue; }
    bool dbl = r.plain.entry == "cast_f64";
    if(s.v != p.v && !(dbl && std::isnan(bits2d(s.v)) && std::isnan(bits2d(p.v))))
      c.violation(r.shaped.entry + "/second-result-stale-or-wrong", (int)ci, a, b, which, i2s(s.v), i2s(p.v) + " (= " + r.plain.entry + " on the modified operand)");
    }
  }
// ---- differential replay of the other properties' workloads -------------------------------------------------------
// The judges of C01..C20 call one entry point with the same arguments in every configuration. While their workloads run
// under this hook, the results of such a group of calls are compared bit for bit (within a sqrt-algorithm group), so C08
// sees every frontier input the property-specific generators produce, not only the generic argument domains.
std::unordered_map<fn2, std::pair<int, int>> FN_INDEX; // wrapper address -> (entry index, configuration index)
struct Pending { int64_t a = 0, b = 0; bool valid = false; uint64_t have = 0; int64_t v[64]; };
thread_local std::vector<Pending> t_pending;
void diff_hook(Ctx & c, fn2 f, int64_t a, int64_t b, const CallRes & r)
  {
  auto it = FN_INDEX.find(f);
  if(it == FN_INDEX.end() || r.sig) return;
  int ei = it->second.first, ci = it->second.second;
  if(ENTRIES[(size_t)ei].gnu_only) return;
  if(t_pending.size() != ENTRIES.size()) t_pending.assign(ENTRIES.size(), Pending());
  Pending & p = t_pending[(size_t)ei]; Entry & e = ENTRIES[(size_t)ei];
  if(!p.valid || p.a != a || p.b != b) { p.valid = true; p.a = a; p.b = b; p.have = 0; }
  int64_t v = canon(e, r.v);
  auto group = [&](int k) { return e.sqrt_dependent ? (g_cfgs[(size_t)k].sqrt_algo == 1 ? 1 : (g_cfgs[(size_t)k].sqrt_algo == 0 ? 0 : 2)) : 0; };
  for(int k = 0; k < (int)g_cfgs.size() && k < 64; ++k)
    if(k != ci && (p.have >> k & 1) && group(k) == group(ci) && p.v[k] != v)
      {
      const char * saved = c.cur_check; c.cur_check = "diff";
      c.violation(e.name + "/configurations-disagree", ci, a, b, ei, i2s(v), i2s(p.v[k]) + " in " + g_cfgs[(size_t)k].name + " (seen while replaying the workload of " + saved + ")");
      c.cur_check = saved;
      break;
      }
  if(ci < 64) { p.v[ci] = v; p.have |= 1ull << ci; }
  }
void build_fn_index()
  {
  FN_INDEX.clear();
  for(size_t ei = 0; ei < ENTRIES.size(); ++ei) for(size_t ci = 0; ci < g_cfgs.size(); ++ci) FN_INDEX[ENTRIES[ei].fn.f[ci]] = { (int)ei, (int)ci };
  for(Property * q : registry()) if(std::string(q->id) != "C07" && std::string(q->id) != "C08") q->init(); // handles of the foreign judges
  }
void replay_foreign_workloads(Ctx & c)
  {
  for(Property * q : registry())
    {
    std::string id = q->id;
    if(id == "C07" || id == "C08") continue;
    // always the quick-tier workload of the other property (its thorough tier contains exhaustive 32-bit sweeps): at 1/5 in quick, in full in thorough
    Ctx d; d.shard = c.shard; d.nshards = c.nshards; d.thorough = false; d.seed = c.seed; d.scale = c.scale * (c.thorough ? 1.0 : 0.2); d.prop = q; d.nontrivial_cap = 1;
    d.rng.seed(c.seed, 5000 + (uint64_t)c.shard + 97 * strhash(q->id) % 100003);
    d.call_hook = diff_hook; d.suppress_foreign = true;
    q->run(d);
    c.st.evaluations += d.st.evaluations; c.st.cases += d.st.cases;
    c.stratum((std::string("workload-of-") + id).c_str(), d.st.cases);
    for(auto & kv : d.st.vio) { VioClass & t = c.st.vio[kv.first]; t.count += kv.second.count; for(auto & pc : kv.second.per_cfg) t.per_cfg[pc.first] += pc.second; for(auto & w : kv.second.wit) if(t.wit.size() < 6) t.wit.push_back(w); }
    }
  }
void j_sqrt_algos(Ctx & c, int64_t x, int64_t, int64_t)
  {
  // up to 2^48 raw both algorithms return a value at HEAD (the abacus guard is at 2^48); where one of them answers NaN
  // (outside its documented domain) there is nothing to compare
  if(x < 0 || x >= (1ll << 48)) return;
  c.stratum(x >= (1ll << 47) ? "sqrt-algorithms-compared-in-[2^47,2^48)" : "sqrt-algorithms-compared");
  if(x >= (1ll << 46) || x < 16) c.nontrivial(hash3(81, x, 0));
  for(size_t ci = 0; ci < g_cfgs.size(); ++ci)
    {
    CallRes a = c.call(SQ_AB.f[ci], x, 0), s = c.call(SQ_STD.f[ci], x, 0);
    if(a.sig || s.sig) { c.signal_event((int)ci, a.sig ? "sqrt_abacus" : "sqrt_std_math", x, 0, a.sig ? a.sig : s.sig); continue; }
    if(x >= (1ll << 47) && (model_isnan(a.v) || model_isnan(s.v))) continue;
    int64_t d = a.v - s.v; if(d < 0) d = -d;
    if(d == 1) c.stratum("sqrt-algorithms-differ-by-1ulp");
    if(d > 1) c.violation(std::string("sqrt_abacus-vs-sqrt_std_math/") + (x >= (1ll << 47) ? "x>=2^31" : (x >= (1ll << 46) ? "x>=2^30" : "x<2^30")) + "/differ-by-more-than-1ulp", (int)ci, x, 0, 0, i2s(a.v), i2s(s.v) + "+-1");
    }
  }

std::mutex g_points_mutex;
// arguments every constexpr-claimed entry point is constant-evaluated on, whatever the random sample contains
std::vector<int64_t> cardinals(Kind k, bool second = false)
  {
  if(k == K_NONE) return { 0 };
  if(k == K_FIX)
    {
    if(second) return { 0, ONE, -ONE, 1, RAW_MAX };
    return { 0, 1, -1, ONE, -ONE, ONE / 2, PHI2, RAW_MAX, RAW_LOWEST, RAW_NAN, RAW_NNAN };
    }
  const auto & B = boundary(k);
  std::vector<int64_t> v{ B.front(), B.back(), B[B.size() / 2] };
  for(int64_t x : B) if((x == 0 || x == 1 || x == -1 || x == 63 || x == 360) && std::find(v.begin(), v.end(), x) == v.end()) v.push_back(x);
  return v;
  }
void drive_all(Ctx & c, const Check & K, bool differential)
  {
  FILE * pf = nullptr;
  if(differential && c.shard == 0 && !g_points_path.empty()) pf = fopen(g_points_path.c_str(), "w");
  uint64_t nrandom = c.n(differential ? 20000 : 30000, differential ? 1000000 : 2000000);
  uint64_t boundary_cap = c.n(60000, 3000000);
  // configuration that executes the abacus algorithm at run time (expected values of sqrt-dependent constant evaluations)
  int abacus_ci = -1; for(size_t ci = 0; ci < g_cfgs.size(); ++ci) if(g_cfgs[ci].sqrt_algo == 1) { abacus_ci = (int)ci; break; }
  for(size_t ei = 0; ei < ENTRIES.size(); ++ei)
    {
    Entry & e = ENTRIES[ei];
    const auto & A = boundary(e.dom.a); const auto & B = boundary(e.dom.b);
    uint64_t total = (uint64_t)A.size() * B.size(), stride = total > boundary_cap ? total / boundary_cap : 1, idx = 0;
    // a stride that is coprime to |B| so that every boundary value of both operands is visited
    while(stride > 1 && (B.size() % stride == 0 || stride % 2 == 0)) ++stride;
    std::string st = std::string("domain-") + kind_name(e.dom.a) + "," + kind_name(e.dom.b);
    uint64_t npoints = 0;
    for(uint64_t k = 0; k < total; k += stride)
      if(c.mine(idx++))
        {
        int64_t a = A[k / B.size()], b = B[k % B.size()];
        c.run_check(K, a, b, (int64_t)ei); c.stratum(st.c_str());
        if((e.dom.a == K_FIX && !model_finite(a)) || e.dom.b == K_SHIFT) c.nontrivial(hash3(7000 + ei, a, b));
        }
    Rng r; r.seed(c.seed, strhash(e.name.c_str()) ^ (uint64_t)c.shard * 7919);
    auto emit_point = [&](int64_t pa, int64_t pb)
      {
      CallRes v0 = c.call(e.fn.f[0], pa, pb);
      int eci = e.sqrt_dependent ? abacus_ci : 0;
      if(eci < 0 || v0.sig) return false;
      CallRes ve = c.call(e.fn.f[(size_t)eci], pa, pb);
      if(ve.sig) return false;
      fprintf(pf, "%s %" PRId64 " %" PRId64 " %" PRId64 " %d\n", e.name.c_str(), pa, pb, canon(e, ve.v), e.double_result ? 1 : 0);
      return true;
      };
    if(pf && e.constexpr_claimed && e.dom.a != K_NONE)
      { // cardinal points: every entry point is forced through the constant evaluators on 0, +-1 ulp, +-1, the limits and the NaN sentinels
      for(int64_t pa : cardinals(e.dom.a)) for(int64_t pb : cardinals(e.dom.b, true)) if(emit_point(pa, pb)) c.stratum("constant-evaluator-cardinal-point");
      }
    uint64_t m = c.share(nrandom);
    for(uint64_t i = 0; i < m; ++i)
      {
      int64_t a = random_of_kind(r, e.dom.a), b;
      if(e.dom.a == K_FIX && e.dom.b == K_FIX && (i & 1)) b = related_fix(r, a); else b = random_of_kind(r, e.dom.b);
      if(e.dom.b != K_NONE && e.dom.b != K_FIX && (i & 7) == 0) a = A[r.below(A.size())];
      c.run_check(K, a, b, (int64_t)ei); c.stratum(st.c_str());
      if((i & 15) == 0) c.nontrivial(hash3(7000 + ei, a, b));
      if(pf && e.constexpr_claimed && e.dom.a != K_NONE && npoints < c.n(48, 400))
        {
        // sample points for the constant-evaluator arm: alternately the random tuple and a boundary tuple
        int64_t pa = a, pb = b;
        if(npoints & 1) { pa = A[r.below(A.size())]; pb = B[(npoints / 2) % B.size()]; } // second operand walks its boundary list from the front
        if(emit_point(pa, pb)) ++npoints;
        }
      }
    }
  if(pf) fclose(pf);
  }

extern Property P_C07, P_C08;
void c07_run(Ctx & c) { drive_all(c, P_C07.checks[0], false); }
void c08_run(Ctx & c)
  {
  drive_all(c, P_C08.checks[0], true);
  replay_foreign_workloads(c);
  const Check & SQ = P_C08.checks[1], & RA = P_C08.checks[2];
  { const auto & L = lattice(); uint64_t idx = 0;
    for(size_t k = 0; k < REASSIGN.size(); ++k)
      {
      for(int64_t a : L) if(c.mine(idx++)) c.run_check(RA, a, L[(idx * 7) % L.size()], (int64_t)k);
      uint64_t m = c.share(c.n(20000, 2000000));
      for(uint64_t i = 0; i < m; ++i) c.run_check(RA, c.rng.logu(), c.rng.logu(), (int64_t)k);
      } }
  int64_t W = c.thorough ? (1ll << 25) : (1ll << 20);
  for(int64_t x = c.shard; x < W; x += c.nshards) c.run_check(SQ, x);
  uint64_t n = c.share(c.n(400000, 40000000));
  for(uint64_t i = 0; i < n; ++i) c.run_check(SQ, c.rng.logu_pos(47));
  for(int k = 2; k <= 47; ++k) for(int64_t d = -200 + c.shard; d <= 200; d += c.nshards) { int64_t x = (1ll << k) + d; if(x >= 0 && x < (1ll << 47)) c.run_check(SQ, x); }
  // the top binade of the abacus domain, [2^47, 2^48) raw
  { uint64_t m = c.share(c.n(100000, 10000000)); for(uint64_t i = 0; i < m; ++i) c.run_check(SQ, (1ll << 47) + (int64_t)c.rng.below(1ull << 47));
    for(int64_t d = c.shard; d <= 400; d += c.nshards) { c.run_check(SQ, (1ll << 47) + d); c.run_check(SQ, (1ll << 48) - 1 - d); } }
  }
Property P_C07 = { "C07", diff_init, c07_run,
  { { "returns", j_returns, "entry point c (index in the sorted entry list) called with (a,b) returns normally (no signal) in every uninstrumented configuration" } },
  { "domain-fixed,fixed", "domain-fixed,none", "domain-fixed,shift-count", "domain-int32-angle,none", "domain-float-bits,none", "domain-double-bits,none", "domain-fixed,uint64", "domain-fixed,double-bits", "domain-index<=360,none" },
  "NaN-sentinel fixed arguments and shift-count arguments from the boundary product, plus every 16th random argument tuple; distinct by (entry,a,b)", {}, {} };
Registrar R_C07(&P_C07);
Property P_C08 = { "C08", diff_init, c08_run,
  { { "diff", j_diff, "entry point c called with (a,b): results bit-identical in all configurations that select the same sqrt algorithm" },
    { "sqrt_algos", j_sqrt_algos, "|sqrt_abacus(x) - sqrt_std_math(x)| <= 1 ulp for raw x in [0,2^48) (above 2^47 only where both return a value); a = raw" },
    { "reassign", j_reassign, "stateful call-site shape c: an operation applied twice in one function with one operand object modified (xor 0x5a5a) in between; the second result must equal the plain entry point on the modified operands, at every optimisation level" } },
  { "domain-fixed,fixed", "domain-fixed,none", "domain-fixed,shift-count", "domain-int32-angle,none", "domain-float-bits,none", "domain-double-bits,none", "domain-fixed,uint64", "domain-fixed,double-bits", "sqrt-algorithms-compared", "stateful-shape", "constant-evaluator-cardinal-point" },
  "NaN-sentinel fixed arguments and shift counts from the boundary product, every 16th random tuple, sqrt arguments >= 2^46 raw or < 16; distinct by (entry,a,b)", {}, {} };
Registrar R_C08(&P_C08);
}
void judge_reassign(Ctx & c, int64_t a, int64_t b, int64_t which) { j_reassign(c, a, b, which); }
size_t reassign_count() { return REASSIGN.size(); }
void reassign_setup() { if(REASSIGN.empty()) reassign_init(); }

// Argument domains of the wrapper entry points (what "any argument value" means for each of them)
#pragma once
#include "core.h"

enum Kind { K_NONE, K_FIX, K_I8, K_I16, K_I32, K_I64, K_U8, K_U16, K_U32, K_U64, K_LL, K_ULL, K_F32, K_F64, K_SHIFT, K_ANGLE, K_IDX361, K_IDX256, K_COUNT, K_I128, K_CNT63 };
struct Domain { Kind a, b; };
// false: not a library entry point (harness helper) or unknown name
bool entry_domain(const std::string & name, Domain & d);
const char * kind_name(Kind k);
// deterministic boundary values of a kind (driven exhaustively, pairwise for two-argument entries)
const std::vector<int64_t> & boundary(Kind k);
int64_t random_of_kind(Rng & r, Kind k);
// is the wrapper argument x inside the domain of kind k (arbitrary arguments arrive from --replay and from the fuzz arm)
bool in_domain(Kind k, int64_t x);
// second operand related to the first (sum / product / quotient frontiers); only meaningful for (K_FIX,K_FIX)
int64_t related_fix(Rng & r, int64_t a);
// all divisors of n (n < 2^64), by trial division + Pollard rho: exact factor pairs (d, n/d) of frontier constants
std::vector<uint64_t> divisors_of(uint64_t n);

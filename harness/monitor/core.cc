#include "core.h"
#include <dlfcn.h>
#include <thread>
#include <mutex>
#include <chrono>
#include <set>
#include <unistd.h>
#include <sys/wait.h>
#include <fcntl.h>

std::vector<Cfg> g_cfgs;
std::vector<Property *> & registry() { static std::vector<Property *> r; return r; }

[[noreturn]] static void harness_fail(const std::string & msg)
  {
  fprintf(stderr, "HARNESS-ERROR: %s\n", msg.c_str());
  _exit(2);
  }

Fn resolve(const char * entry)
  {
  Fn f; f.entry = entry;
  for(auto & c : g_cfgs)
    {
    auto it = c.tab.find(entry);
    if(it == c.tab.end()) harness_fail(std::string("entry ") + entry + " missing in configuration " + c.name);
    f.f.push_back(it->second);
    }
  return f;
  }

// ------------------------------------------------------------------------------------------ strings
std::string i2s(int64_t v) { char b[32]; snprintf(b, sizeof b, "%" PRId64, v); return b; }
std::string i128s(i128 v)
  {
  if(v == 0) return "0";
  bool neg = v < 0; u128 u = neg ? (u128)0 - (u128)v : (u128)v; std::string s;
  while(u) { s.push_back('0' + (int)(u % 10)); u /= 10; }
  if(neg) s.push_back('-');
  std::reverse(s.begin(), s.end()); return s;
  }
std::string ld2s(long double v) { char b[64]; snprintf(b, sizeof b, "%.12Lg", v); return b; }
std::string hexraw(int64_t v) { char b[32]; snprintf(b, sizeof b, "0x%016" PRIx64, (uint64_t)v); return b; }
std::string jesc(const std::string & s)
  {
  std::string o;
  for(char c : s) { if(c == '"' || c == '\\') { o.push_back('\\'); o.push_back(c); } else if((unsigned char)c < 0x20) { char b[8]; snprintf(b, sizeof b, "\\u%04x", c); o += b; } else o.push_back(c); }
  return o;
  }

// ------------------------------------------------------------------------------------------ guarded call
static thread_local sigjmp_buf t_jb;
static thread_local volatile sig_atomic_t t_armed = 0;
static void on_signal(int s)
  {
  if(t_armed) { t_armed = 0; siglongjmp(t_jb, s); }
  // a signal outside a guarded library call is a harness fault
  const char m[] = "HARNESS-ERROR: signal outside guarded call\n";
  ssize_t r = write(2, m, sizeof m - 1); (void)r;
  _exit(2);
  }
static void install_guard(bool with_abort = true)
  {
  struct sigaction sa; memset(&sa, 0, sizeof sa); sa.sa_handler = on_signal; sa.sa_flags = SA_NODEFER;
  for(int s : { SIGFPE, SIGSEGV, SIGBUS, SIGILL }) sigaction(s, &sa, nullptr);
  if(with_abort) sigaction(SIGABRT, &sa, nullptr);
  }
CallRes Ctx::call(fn2 f, int64_t a, int64_t b)
  {
  CallRes r{ 0, 0 };
  ++st.evaluations;
  struct Rec { Ctx & c; CallRes & r; ~Rec() { if(c.sampling && c.cur_results.size() < 12) c.cur_results.push_back(r.sig ? INT64_MIN : r.v); } } rec{ *this, r };
  int prev_mode = 0;
  if(fe_mode) { prev_mode = std::fegetround(); std::fesetround(fe_mode); }
  int s = sigsetjmp(t_jb, 0);
  if(s == 0)
    {
    t_armed = 1;
    r.v = f(a, b);
    t_armed = 0;
    }
  else
    {
    r.sig = s;
    ++st.signals;
    }
  if(fe_mode) std::fesetround(prev_mode);
  if(call_hook) { in_hook = true; call_hook(*this, f, a, b, r); in_hook = false; }
  return r;
  }
static const char * fe_name(int m)
  {
  switch(m) { case FE_DOWNWARD: return "FE_DOWNWARD"; case FE_UPWARD: return "FE_UPWARD"; case FE_TOWARDZERO: return "FE_TOWARDZERO"; }
  return "FE_TONEAREST";
  }
static const char * signame(int s)
  {
  switch(s) { case SIGFPE: return "SIGFPE"; case SIGSEGV: return "SIGSEGV"; case SIGBUS: return "SIGBUS"; case SIGILL: return "SIGILL"; case SIGABRT: return "SIGABRT"; }
  return "SIG?";
  }
void Ctx::signal_event(int ci, const char * entry, int64_t a, int64_t b, int sig)
  {
  violation(std::string(entry) + "/signal-" + signame(sig), ci, a, b, 0, signame(sig), "returns normally");
  }
void Ctx::violation(const std::string & key, int ci, int64_t a, int64_t b, int64_t c, const std::string & observed, const std::string & expected)
  {
  if(suppress_foreign && !in_hook) return;
  VioClass & vc = st.vio[key];
  ++vc.count;
  const std::string & cn = (ci >= 0 && ci < (int)g_cfgs.size()) ? g_cfgs[ci].name : std::string("*");
  ++vc.per_cfg[cn];
  if(vc.wit.size() < 6)
    {
    Violation v; v.key = key; v.check = cur_check; v.cfg = cn; v.a = a; v.b = b; v.c = c; v.observed = observed; v.expected = expected;
    if(fe_mode) v.observed += std::string(" [library call made under std::fesetround(") + fe_name(fe_mode) + ")]";
    vc.wit.push_back(v);
    }
  }
void Ctx::maxi(const char * name, long double v, const char * check, int64_t a, int64_t b)
  {
  auto it = st.maxima.find(name);
  if(it == st.maxima.end() || v > it->second.first)
    st.maxima[name] = { v, std::string(check) + "(" + i2s(a) + "," + i2s(b) + ")" };
  }
void Ctx::sample(const char * check, int64_t a, int64_t b, int64_t c, const char * cfg, int64_t observed, const char * note)
  {
  if(st.samples.size() >= 12) return;
  std::string s = "{\"check\":\"" + jesc(check) + "\",\"a\":" + i2s(a) + ",\"b\":" + i2s(b) + ",\"c\":" + i2s(c) + ",\"cfg\":\"" + jesc(cfg) + "\",\"observed\":" + i2s(observed) + ",\"note\":\"" + jesc(note) + "\"}";
  st.samples.push_back(s);
  }
void Ctx::record_sample(const char * check, int64_t a, int64_t b, int64_t c, bool violated)
  {
  std::string s = "{\"check\":\"" + jesc(check) + "\",\"args\":[" + i2s(a) + "," + i2s(b) + "," + i2s(c) + "],\"first_library_results\":[";
  for(size_t i = 0; i < cur_results.size(); ++i) s += std::string(i ? "," : "") + i2s(cur_results[i]);
  s += std::string("],\"judged\":\"") + (violated ? "violation" : "ok") + "\"}";
  st.samples.push_back(s);
  }
void Stats::merge(const Stats & o)
  {
  evaluations += o.evaluations; cases += o.cases; signals += o.signals;
  for(auto & k : o.strata) strata[k.first] += k.second;
  for(auto & k : o.per_check) per_check[k.first] += k.second;
  for(auto & k : o.vio)
    {
    VioClass & v = vio[k.first]; v.count += k.second.count;
    for(auto & p : k.second.per_cfg) v.per_cfg[p.first] += p.second;
    for(auto & w : k.second.wit) if(v.wit.size() < 6) v.wit.push_back(w);
    }
  for(uint64_t h : o.nontrivial) nontrivial.insert(h);
  nontrivial_overflow += o.nontrivial_overflow;
  for(auto & m : o.maxima) { auto it = maxima.find(m.first); if(it == maxima.end() || m.second.first > it->second.first) maxima[m.first] = m.second; }
  for(auto & s : o.samples) if(samples.size() < 24) samples.push_back(s);
  }

// ------------------------------------------------------------------------------------------ configuration loading
struct w_entry { const char * name; fn2 fn; };
// configurations whose shared object could not even be loaded: a signal during its static initialisation (the wrappers
// translation unit calls the compiled table functions from a namespace-scope constructor, before fixed_math.cc's own
// initialisers). Probed in a forked child so that the monitor itself survives; such a configuration is left out of the run.
static std::vector<std::pair<std::string, int>> g_load_crashes;
static void load_cfg(const std::string & path)
  {
  fflush(stdout); fflush(stderr);
  pid_t pid = fork();
  if(pid == 0)
    {
    int fd = open("/dev/null", O_WRONLY); if(fd >= 0) { dup2(fd, 2); close(fd); }
    void * h = dlopen(path.c_str(), RTLD_NOW | RTLD_LOCAL);
    _exit(h ? 0 : 3);
    }
  if(pid > 0)
    {
    int st = 0; waitpid(pid, &st, 0);
    if(WIFSIGNALED(st)) { g_load_crashes.push_back({ path, WTERMSIG(st) }); return; }
    }
  Cfg c; c.path = path;
  c.handle = dlopen(path.c_str(), RTLD_NOW | RTLD_LOCAL);
  if(!c.handle) harness_fail(std::string("dlopen ") + path + ": " + dlerror());
  auto tab = (const w_entry *)dlsym(c.handle, "w_entries");
  auto cfgname = (const char * (*)())dlsym(c.handle, "w_cfg");
  if(!tab || !cfgname) harness_fail("w_entries / w_cfg missing in " + path);
  c.name = cfgname();
  c.fastmath = c.name.find("fastmath") != std::string::npos;
  for(; tab->name; ++tab) c.tab[tab->name] = tab->fn;
  g_cfgs.push_back(c);
  }
static void fingerprint()
  {
  for(auto & c : g_cfgs)
    {
    fn2 s = c.tab.at("sqrt"), sa = c.tab.at("sqrt_abacus"), ss = c.tab.at("sqrt_std_math");
    int like_ab = 0, like_std = 0, differ = 0;
    auto probe = [&](int64_t x)
      {
      int64_t ra = sa(x, 0), rs = ss(x, 0);
      if(ra == rs) return;
      ++differ; int64_t r = s(x, 0);
      if(r == ra) ++like_ab; else if(r == rs) ++like_std;
      };
    for(int64_t x = 65536; x < 65536 + 400000 && differ < 64; x += 97) probe(x);
    // beyond the common domain the two algorithms differ by construction (abacus: NaN from 2^32 on; std: a value), which keeps
    // the fingerprint meaningful even if both round identically below 2^31
#ifndef VERIF_FUZZ // the fuzz target is sanitizer-instrumented and aborts on a report: no library call outside sqrt's domain before the first input
    for(int64_t x : { (int64_t)1 << 48, ((int64_t)1 << 49) + 1, (int64_t)1 << 50, (int64_t)3 << 54, ((int64_t)1 << 62) + 12345, ((int64_t)1 << 47) + 1, ((int64_t)1 << 47) - 1 }) probe(x);
#endif
    if(differ == 0) c.sqrt_algo = -1;
    else if(like_ab == differ) c.sqrt_algo = 1;
    else if(like_std == differ) c.sqrt_algo = 0;
    else c.sqrt_algo = 2;
    c.constexpr_sqrt = c.tab.at("sqrt_constexpr_available")(0, 0) != 0;
    c.cplusplus = (long)c.tab.at("cplusplus")(0, 0);
    }
  }

// ------------------------------------------------------------------------------------------ main
static std::string json_of(const Stats & st, const Property & p, bool thorough, uint64_t seed, double wall, int nshards, const std::vector<std::string> & missing)
  {
  std::string o = "{";
  auto kv = [&](const char * k, const std::string & v, bool str = false) { o += std::string("\"") + k + "\":" + (str ? "\"" + jesc(v) + "\"" : v) + ","; };
  kv("property", p.id, true); kv("tier", thorough ? "thorough" : "quick", true); kv("seed", i2s((int64_t)seed));
  kv("shards", i2s(nshards));
  o += "\"configs\":[";
  for(size_t i = 0; i < g_cfgs.size(); ++i)
    {
    auto & c = g_cfgs[i];
    o += std::string(i ? "," : "") + "{\"name\":\"" + jesc(c.name) + "\",\"sqrt_algo\":" + i2s(c.sqrt_algo) + ",\"sqrt_constexpr_available\":" + (c.constexpr_sqrt ? "true" : "false") + ",\"cplusplus\":" + i2s(c.cplusplus) + "}";
    }
  o += "],";
  kv("evaluations", i2s((int64_t)st.evaluations)); kv("cases", i2s((int64_t)st.cases)); kv("signals", i2s((int64_t)st.signals));
  kv("distinct_nontrivial", i2s((int64_t)st.nontrivial.size())); kv("nontrivial_uncounted", i2s((int64_t)st.nontrivial_overflow));
  kv("nontrivial_rule", p.nontrivial_rule, true);
  auto mapjson = [&](const std::map<std::string, uint64_t> & m) { std::string s = "{"; bool f = true; for(auto & k : m) { s += std::string(f ? "" : ",") + "\"" + jesc(k.first) + "\":" + i2s((int64_t)k.second); f = false; } return s + "}"; };
  kv("strata", mapjson(st.strata)); kv("per_check", mapjson(st.per_check));
  o += "\"checks\":{";
  for(size_t i = 0; i < p.checks.size(); ++i) o += std::string(i ? "," : "") + "\"" + p.checks[i].name + "\":\"" + jesc(p.checks[i].doc) + "\"";
  o += "},\"exhaustive\":[";
  { auto & ex = thorough ? p.exhaustive_thorough : p.exhaustive_quick; for(size_t i = 0; i < ex.size(); ++i) o += std::string(i ? "," : "") + "\"" + jesc(ex[i]) + "\""; }
  o += "],\"maxima\":{";
  { bool f = true; for(auto & m : st.maxima) { o += std::string(f ? "" : ",") + "\"" + jesc(m.first) + "\":{\"value\":" + ld2s(m.second.first) + ",\"at\":\"" + jesc(m.second.second) + "\"}"; f = false; } }
  o += "},\"samples\":[";
  for(size_t i = 0; i < st.samples.size(); ++i) o += std::string(i ? "," : "") + st.samples[i];
  o += "],\"violations\":[";
  { bool f = true;
    for(auto & v : st.vio)
      {
      o += std::string(f ? "" : ",") + "{\"key\":\"" + jesc(v.first) + "\",\"count\":" + i2s((int64_t)v.second.count) + ",\"per_cfg\":" + mapjson(v.second.per_cfg) + ",\"witnesses\":[";
      for(size_t i = 0; i < v.second.wit.size(); ++i)
        {
        auto & w = v.second.wit[i];
        o += std::string(i ? "," : "") + "{\"check\":\"" + jesc(w.check) + "\",\"cfg\":\"" + jesc(w.cfg) + "\",\"a\":" + i2s(w.a) + ",\"b\":" + i2s(w.b) + ",\"c\":" + i2s(w.c) + ",\"observed\":\"" + jesc(w.observed) + "\",\"expected\":\"" + jesc(w.expected) + "\"}";
        }
      o += "]}"; f = false;
      } }
  o += "],\"missing_strata\":[";
  for(size_t i = 0; i < missing.size(); ++i) o += std::string(i ? "," : "") + "\"" + jesc(missing[i]) + "\"";
  o += "],";
  kv("status", missing.empty() ? "ok" : "inconclusive", true);
  o += "\"wall_s\":" + ld2s(wall) + "}";
  return o;
  }

#ifndef VERIF_FUZZ
int main(int argc, char ** argv)
  {
  // usage: monitor <PROP> <quick|thorough> <seed> <out.json> [--threads N] [--replay check a b c] cfg.so...
  if(argc < 6) { fprintf(stderr, "usage: monitor PROP tier seed out.json [--threads N] [--scale X] [--replay check a b c] cfg.so...\n"); return 2; }
  std::string pid = argv[1]; bool thorough = std::string(argv[2]) == "thorough"; uint64_t seed = strtoull(argv[3], nullptr, 10); std::string out = argv[4];
  int nthreads = 16; double scale = 1.0; bool replay = false; std::string rcheck; int64_t ra = 0, rb = 0, rc = 0;
  for(int i = 5; i < argc; ++i)
    {
    std::string a = argv[i];
    if(a == "--threads" && i + 1 < argc) nthreads = atoi(argv[++i]);
    else if(a == "--scale" && i + 1 < argc) scale = atof(argv[++i]);
    else if(a == "--replay" && i + 4 < argc) { replay = true; rcheck = argv[i + 1]; ra = strtoll(argv[i + 2], nullptr, 10); rb = strtoll(argv[i + 3], nullptr, 10); rc = strtoll(argv[i + 4], nullptr, 10); i += 4; }
    else load_cfg(a);
    }
  if(g_cfgs.empty() && g_load_crashes.empty()) harness_fail("no configurations given");
  if(g_cfgs.empty() && pid != "C07" && pid != "C19") harness_fail("every configuration died while being loaded (signal during static initialisation)");
  fingerprint();
  Property * prop = nullptr;
  for(auto p : registry()) if(pid == p->id) prop = p;
  if(!prop) harness_fail("unknown property " + pid);
  // properties whose checks do not involve floating point at all (or only in checks marked fp_env): the caller's rounding
  // direction must not influence any result
  bool fe_pass = false;
  for(const char * q : { "C01", "C02", "C03", "C04", "C06", "C07", "C09", "C10", "C11", "C15", "C16", "C17", "C18", "C19", "C20" }) if(pid == q) fe_pass = true;
  if(getenv("VERIF_NO_FE_PASS")) fe_pass = false;
  install_guard();
  prop->init();
  auto t0 = std::chrono::steady_clock::now();
  Stats total;
  if(replay)
    {
    Ctx c; c.thorough = thorough; c.seed = seed; c.prop = prop; c.rng.seed(seed, 0);
    const Check * ck = nullptr;
    for(auto & k : prop->checks) if(rcheck == k.name) ck = &k;
    if(!ck) harness_fail("unknown check " + rcheck);
    c.run_check(*ck, ra, rb, rc);
    total.merge(c.st);
    }
  else
    {
    if(nthreads < 1) nthreads = 1;
    std::vector<Ctx> ctx((size_t)nthreads);
    std::vector<std::thread> th;
    for(int i = 0; i < nthreads; ++i)
      {
      Ctx & c = ctx[(size_t)i]; if(thorough) c.nontrivial_cap = 1u << 21; c.shard = i; c.nshards = nthreads; c.thorough = thorough; c.seed = seed; c.scale = scale; c.prop = prop; c.rng.seed(seed, (uint64_t)i + 1000 * strhash(prop->id) % 1000003);
      th.emplace_back([&c, prop, fe_pass]
        {
        prop->run(c);
        if(!fe_pass) return;
        // floating-point environment pass: the same workload, thinned, with every library call made under a directed
        // rounding mode; the property's checks (except those marked fp_env) must hold unchanged
        double scale0 = c.scale; bool thorough0 = c.thorough;
        for(int mode : { FE_UPWARD, FE_DOWNWARD, FE_TOWARDZERO })
          {
          uint64_t e0 = c.st.evaluations;
          // the thorough tier's exhaustive 32-bit sweeps are not repeated per rounding mode: the passes run the quick-tier
          // workload (thinned to 1/8 in quick, to 1/2 in thorough)
          c.fe_mode = mode; c.thorough = false; c.scale = scale0 * (thorough0 ? 0.5 : 0.125);
          prop->run(c);
          c.fe_mode = 0; c.scale = scale0; c.thorough = thorough0;
          c.st.strata[std::string("library-calls-under-") + fe_name(mode)] += c.st.evaluations - e0;
          }
        });
      }
    for(auto & t : th) t.join();
    for(auto & c : ctx) total.merge(c.st);
    }
  if(!g_load_crashes.empty() && (pid == "C07" || pid == "C19"))
    for(auto & lc : g_load_crashes)
      { // calls of the compiled table functions made during static initialisation did not return (C07; they are C19's functions)
      std::string base = lc.first.substr(lc.first.rfind('/') + 1);
      VioClass & vc = total.vio[std::string("static-initialisation/signal-") + signame(lc.second)];
      ++vc.count; ++vc.per_cfg[base];
      Violation v; v.key = "static-initialisation"; v.check = "static_init"; v.cfg = base; v.observed = std::string(signame(lc.second)) + " while loading the configuration: a compiled table function called from a static initialiser of another translation unit did not return"; v.expected = "returns normally";
      if(vc.wit.size() < 6) vc.wit.push_back(v);
      }
  double wall = std::chrono::duration<double>(std::chrono::steady_clock::now() - t0).count();
  std::vector<std::string> missing;
  if(!replay) for(auto s : prop->required_strata) { auto it = total.strata.find(s); if(it == total.strata.end() || it->second == 0) missing.push_back(s); }
  std::string js = json_of(total, *prop, thorough, seed, wall, nthreads, missing);
  FILE * f = fopen(out.c_str(), "w");
  if(!f) harness_fail("cannot write " + out);
  fputs(js.c_str(), f); fputc('\n', f); fclose(f);
  return 0;
  }
#else
// ------------------------------------------------------------------------------------------ libFuzzer entry (fuzz arm)
// The instrumented wrappers + library are linked statically; libFuzzer's coverage and comparison feedback drive the
// arguments of the property's named checks: input = [check index u8][a i64][b i64][c i64]. The judges are the same
// oracles as in the value monitor. A violation whose key is not listed as known aborts, so that libFuzzer writes the
// input as an artifact; the Python arm replays artifacts through the ordinary monitor for classification.
extern "C" const w_entry w_entries[];
extern "C" const char * w_cfg();
static Property * fz_prop = nullptr;
static Ctx * fz_ctx = nullptr;
static std::set<std::string> fz_known, fz_seen;
extern "C" int LLVMFuzzerInitialize(int *, char ***)
  {
  Cfg c; c.path = "static"; c.name = w_cfg();
  for(const w_entry * t = w_entries; t->name; ++t) c.tab[t->name] = t->fn;
  g_cfgs.push_back(c);
  fingerprint();
  const char * pid = getenv("VERIF_FUZZ_PROP");
  for(auto p : registry()) if(pid && std::string(pid) == p->id) fz_prop = p;
  if(!fz_prop) harness_fail("VERIF_FUZZ_PROP not set or unknown");
  install_guard(false); // abort() must reach libFuzzer so that it writes the artifact
  fz_prop->init();
  fz_ctx = new Ctx; fz_ctx->prop = fz_prop; fz_ctx->nontrivial_cap = 1u << 16; fz_ctx->rng.seed(1, 1);
  if(const char * kf = getenv("VERIF_FUZZ_KNOWN")) { FILE * f = fopen(kf, "r"); if(f) { char buf[1024]; while(fgets(buf, sizeof buf, f)) { std::string k = buf; while(!k.empty() && (k.back() == '\n' || k.back() == '\r')) k.pop_back(); if(!k.empty()) fz_known.insert(k); } fclose(f); } }
  if(const char * sd = getenv("VERIF_FUZZ_SEEDDIR"))
    { // seed corpus: lattice values for every check
    const auto & L = lattice(); Rng r; r.seed(7, 7); int n = 0;
    for(size_t k = 0; k < fz_prop->checks.size(); ++k)
      for(int i = 0; i < 96; ++i)
        {
        int64_t v[3] = { L[r.below(L.size())], (i & 1) ? L[r.below(L.size())] : r.range(-70, 400), (i & 3) == 3 ? L[r.below(L.size())] : ((i & 4) ? (int64_t)r.below(8) : (int64_t)r.below(512)) };
        unsigned char buf[25]; buf[0] = (unsigned char)k; memcpy(buf + 1, v, 24);
        std::string fn = std::string(sd) + "/seed" + std::to_string(n++); FILE * f = fopen(fn.c_str(), "wb"); if(f) { fwrite(buf, 1, 25, f); fclose(f); }
        }
    }
  return 0;
  }
// Domain-aware mutation on top of libFuzzer's own: after the default mutation, sometimes snap one argument to an extreme
// residue of a period the library reduces by (phi, 2*phi, 360 degrees, one integer unit). Range reductions that replace
// the modulo by a reciprocal multiplication fail first at residues 0 / P-1 of large multiples; coverage feedback can lead
// the fuzzer to the multiple, only a snap lands on the residue.
extern "C" size_t LLVMFuzzerMutate(uint8_t * data, size_t size, size_t max_size);
extern "C" size_t LLVMFuzzerCustomMutator(uint8_t * data, size_t size, size_t max_size, unsigned int seed)
  {
  size = LLVMFuzzerMutate(data, size, max_size);
  if(size < 25 || max_size < 25) return size;
  Rng r; r.seed(seed, 99);
  if(r.below(4) != 0) return size;
  int field = (int)r.below(2);                       // a or b
  int64_t x; memcpy(&x, data + 1 + 8 * field, 8);
  static const int64_t periods[] = { PHI, TWO_PHI, 360, 65536, 360 * 65536, PHI2 };
  int64_t P = periods[r.below(6)];
  if(x == INT64_MIN) return size;
  int64_t ax = x < 0 ? -x : x, q = ax / P;
  static const int64_t offs[] = { 0, 1, 2, -1, -2 };
  int64_t res; switch(r.below(4)) { case 0: res = offs[r.below(5)]; break; case 1: res = P / 2 + offs[r.below(5)]; break; case 2: res = P - 1 - (int64_t)r.below(3); break; default: res = PHI2 % P; }
  i128 nx = (i128)q * P + res; if(nx > RAW_MAX || nx < 0) return size;
  x = x < 0 ? -(int64_t)nx : (int64_t)nx;
  memcpy(data + 1 + 8 * field, &x, 8);
  return size;
  }
extern "C" int LLVMFuzzerTestOneInput(const uint8_t * d, size_t n)
  {
  if(n < 25) return 0;
  const Check & ck = fz_prop->checks[d[0] % fz_prop->checks.size()];
  int64_t v[3]; memcpy(v, d + 1, 24);
  uint64_t before = fz_ctx->vio_total();
  fz_ctx->run_check(ck, v[0], v[1], v[2]);
  if(fz_ctx->vio_total() != before)
    for(auto & kv : fz_ctx->st.vio)
      if(!fz_seen.count(kv.first))
        {
        fz_seen.insert(kv.first);
        if(fz_known.count(kv.first)) continue;
        fprintf(stderr, "FUZZ-VIOLATION check=%s a=%" PRId64 " b=%" PRId64 " c=%" PRId64 " key=%s\n", ck.name, v[0], v[1], v[2], kv.first.c_str());
        abort();
        }
  if(fz_ctx->st.samples.size() > 8) fz_ctx->st.samples.clear();
  return 0;
  }
#endif

// C04 integer<->fixed, C05 float/double<->fixed, C16 mixed-type operators, C17 algebraic laws, C20 degree helpers
#include "core.h"
#include <quadmath.h>

namespace
{
const i128 P63 = (i128)1 << 63;
const char * TAGS10[12] = { "i8", "i16", "i32", "i64", "u8", "u16", "u32", "u64", "f32", "f64", "ll", "ull" };
inline int int_index_of_mixed(int ti) { return ti < 8 ? ti : ti - 2; } // position in INT_TYPES of a mixed-operand index

// ============================================================================================ C04
struct IntConv { std::vector<Fn> to_fixed; std::vector<Fn> from_fixed; Fn add_fT, add_Tf; };
IntConv IC[N_INT];
Fn UDL_INT;
template<int TI> void j_int_to_fixed(Ctx & c, int64_t nraw, int64_t light, int64_t)
  {
  const IntType & t = INT_TYPES[TI];
  i128 n = int_value(t, nraw);
  bool in = n <= 2147483647 && n >= -2147483647;
  c.stratum(in ? "int-in-range" : "int-out-of-range");
  i128 an = n < 0 ? -n : n;
  if(!in || an >= 2147483647 - 2 || n == 0) c.nontrivial(hash3(40 + TI, nraw, 0));
  i128 e = n * 65536;
  auto judge = [&](const Fn & f, size_t ci, int64_t r, bool only_in_range)
    {
    if(in) { if(r != (int64_t)e) c.violation(f.entry + (model_isnan(r) ? "/in-range/nan" : "/in-range/wrong-value"), (int)ci, nraw, 0, 0, i2s(r), i128s(e)); }
    else if(!only_in_range && !model_isnan(r)) c.violation(f.entry + "/out-of-range/not-nan", (int)ci, nraw, 0, 0, i2s(r), "NaN");
    };
  for(size_t ci = 0; ci < g_cfgs.size(); ++ci)
    {
    for(size_t fi = 0; fi < IC[TI].to_fixed.size(); ++fi)
      {
      if(light == 1 && fi != 0 && fi != 3) continue; // b = 1: constructor and integral_to_fixed only (exhaustive 32-bit sweeps)
      auto & f = IC[TI].to_fixed[fi];
      CallRes r = c.call(f.f[ci], nraw, 0);
      if(r.sig) { c.signal_event((int)ci, f.entry.c_str(), nraw, 0, r.sig); continue; }
      judge(f, ci, r.v, false);
      }
    if(light == 1) continue;
    // implicit promotion in mixed arithmetic: 0 + n and n + 0
    for(const Fn * f : { &IC[TI].add_fT, &IC[TI].add_Tf })
      {
      CallRes r = c.call(f->f[ci], 0, nraw);
      if(r.sig) { c.signal_event((int)ci, f->entry.c_str(), 0, nraw, r.sig); continue; }
      judge(*f, ci, r.v, false); // out of range: the promoted operand is NaN and 0 + NaN is NaN
      }
    if((TI == 3 || TI == 8) && n >= 0)
      {
      CallRes r = c.call(UDL_INT.f[ci], nraw, 0);
      if(r.sig) c.signal_event((int)ci, "udl_int", nraw, 0, r.sig); else judge(UDL_INT, ci, r.v, false);
      }
    }
  }
template<int TI> void j_fixed_to_int(Ctx & c, int64_t x, int64_t, int64_t)
  {
  if(!model_finite(x)) return;
  const IntType & t = INT_TYPES[TI];
  i128 k = (i128)x >> 16; // floor
  bool rep = k >= t.lo && k <= t.hi;
  c.stratum(rep ? "floor-representable" : "floor-not-representable");
  if(x < 0 && (x & 0xffff)) c.stratum("negative-fraction-to-int");
  { i128 d1 = k - t.lo, d2 = k - t.hi; if(d1 < 0) d1 = -d1; if(d2 < 0) d2 = -d2; if(d1 <= 2 || d2 <= 2 || (x < 0 && (x & 0xffff))) c.nontrivial(hash3(48 + TI, x, 0)); }
  int64_t e = rep ? (int64_t)(uint64_t)(u128)k : 0;
  for(size_t ci = 0; ci < g_cfgs.size(); ++ci)
    for(auto & f : IC[TI].from_fixed)
      {
      CallRes r = c.call(f.f[ci], x, 0);
      if(r.sig) { c.signal_event((int)ci, f.entry.c_str(), x, 0, r.sig); continue; }
      if(r.v != e) c.violation(f.entry + (rep ? "/representable/wrong-value" : "/not-representable/not-zero"), (int)ci, x, 0, 0, i2s(r.v), i2s(e));
      }
  }
template<int TI> void j_int_roundtrip(Ctx & c, int64_t nraw, int64_t, int64_t)
  {
  const IntType & t = INT_TYPES[TI];
  i128 n = int_value(t, nraw);
  if(!(n <= 2147483647 && n >= -2147483647)) return;
  c.stratum("int-roundtrip");
  for(size_t ci = 0; ci < g_cfgs.size(); ++ci)
    {
    CallRes f = c.call(IC[TI].to_fixed[0].f[ci], nraw, 0);
    if(f.sig) { c.signal_event((int)ci, IC[TI].to_fixed[0].entry.c_str(), nraw, 0, f.sig); continue; }
    CallRes b = c.call(IC[TI].from_fixed[0].f[ci], f.v, 0);
    if(b.sig) { c.signal_event((int)ci, IC[TI].from_fixed[0].entry.c_str(), f.v, 0, b.sig); continue; }
    if(int_value(t, b.v) != n) c.violation(std::string("roundtrip_") + t.tag + "/not-identity", (int)ci, nraw, 0, 0, i2s(b.v), i128s(n));
    }
  }
void c04_init()
  {
  reassign_setup();
  for(int i = 0; i < N_INT; ++i)
    {
    std::string t = INT_TYPES[i].tag;
    IC[i].to_fixed = { resolve(("ctor_" + t).c_str()), resolve(("a2f_" + t).c_str()), resolve(("mkf_" + t).c_str()), resolve(("i2f_" + t).c_str()) };
    IC[i].from_fixed = { resolve(("cast_" + t).c_str()), resolve(("f2i_" + t).c_str()), resolve(("f2a_" + t).c_str()) };
    IC[i].add_fT = resolve(("add_f" + t).c_str()); IC[i].add_Tf = resolve(("add_" + t + "f").c_str());
    }
  UDL_INT = resolve("udl_int");
  }
extern Property P_C04;
void c04_run(Ctx & c)
  {
  { const Check & RA = P_C04.checks[P_C04.checks.size() - 1]; const auto & LL = lattice(); uint64_t ridx = 0;
    for(int64_t k = 8; k <= 12; ++k)
      {
      for(int64_t a : LL) if(c.mine(ridx++)) c.run_check(RA, a, 0, k);
      uint64_t m = c.share(c.n(20000, 2000000)); for(uint64_t i = 0; i < m; ++i) c.run_check(RA, c.rng.logu(), 0, k);
      } }
  const auto & L = lattice();
  for(int ti = 0; ti < N_INT; ++ti)
    {
    const IntType & t = INT_TYPES[ti];
    const Check & TF = P_C04.checks[(size_t)ti], & FT = P_C04.checks[N_INT + (size_t)ti], & RT = P_C04.checks[2 * N_INT + (size_t)ti];
    if(t.bits <= 16)
      for(int64_t v = (int64_t)t.lo + c.shard; v <= (int64_t)t.hi; v += c.nshards) { c.run_check(TF, v); c.run_check(RT, v); }
    else if(t.bits == 32)
      {
      int64_t step = c.thorough ? 1 : 4099; // thorough: every value of the type
      for(int64_t v = (int64_t)t.lo + c.shard * step; v <= (int64_t)t.hi; v += c.nshards * step) { c.run_check(TF, v, (c.thorough && (v & 1023)) ? 1 : 0); if((v & 1023) == 0 || !c.thorough) c.run_check(RT, v); }
      }
    uint64_t m = c.share(c.n(60000, 3000000));
    for(uint64_t i = 0; i < m; ++i) { int64_t v = random_of_type(c.rng, t); c.run_check(TF, v); c.run_check(RT, v); }
    // fixed -> T
    uint64_t idx = 0;
    for(int64_t x : L) if(c.mine(idx++)) c.run_check(FT, x);
    if(t.bits <= 16) { int64_t W = 1ll << 24; int64_t step = c.thorough ? 1 : 5; for(int64_t x = -W + c.shard * step; x <= W; x += c.nshards * step) c.run_check(FT, x); }
    for(i128 lim : { t.lo, t.hi })
      {
      i128 base = lim * 65536; int64_t W = c.thorough ? (1 << 17) : (1 << 13);
      for(int64_t d = -W + c.shard; d <= W + 65536; d += c.nshards) { i128 x = base + d; if(x >= RAW_LOWEST && x <= RAW_MAX) c.run_check(FT, (int64_t)x); }
      }
    m = c.share(c.n(60000, 3000000));
    for(uint64_t i = 0; i < m; ++i) c.run_check(FT, (i & 1) ? c.rng.logu() : -c.rng.logu_pos(40));
    }
  }
#define C04_CHECKS(T, J, doc) { T "_i8", J<0>, doc }, { T "_i16", J<1>, "" }, { T "_i32", J<2>, "" }, { T "_i64", J<3>, "" }, { T "_u8", J<4>, "" }, { T "_u16", J<5>, "" }, { T "_u32", J<6>, "" }, { T "_u64", J<7>, "" }, { T "_ll", J<8>, "long long" }, { T "_ull", J<9>, "unsigned long long" }
Property P_C04 = { "C04", c04_init, c04_run,
  { C04_CHECKS("int_to_fixed", j_int_to_fixed, "fixed_t{n}, arithmetic_to_fixed, make_fixed, integral_to_fixed, 0+n, n+0 (and _fix literal for int64); a = value of the type"),
    C04_CHECKS("fixed_to_int", j_fixed_to_int, "static_cast<T>, fixed_to_integral<T>, fixed_to_arithmetic<T>; a = finite raw"),
    C04_CHECKS("int_roundtrip", j_int_roundtrip, "n -> fixed_t -> T for |n| <= 2^31-1"),
    { "reassign", judge_reassign, "static_cast<T>(x) twice in one function with x modified in between (int32, int64, uint16, double, float); c = shape 8..12", true } },
  { "int-in-range", "int-out-of-range", "floor-representable", "floor-not-representable", "negative-fraction-to-int", "int-roundtrip" },
  "integer within 2 of +-(2^31-1), 0, or out of range; fixed value whose floor is within 2 of a limit of the target type or a negative fraction; distinct by (value,type)",
  { "every value of int8,uint8,int16,uint16 (int->fixed, round trip)" }, { "every value of int8,uint8,int16,uint16,int32,uint32 (int->fixed)", "every raw in [-2^24,2^24] -> 8/16-bit targets" } };
Registrar R_C04(&P_C04);

// ============================================================================================ C05
std::vector<Fn> FROM_F32, FROM_F64, TO_F32, TO_F64; Fn RT_F64, RT_F32;
// allowed raw results for converting v (exact in __float128): [lo,hi], sign applied by caller
template<class FT> bool conv_oracle(FT v, bool & expect_nan, int64_t & lo, int64_t & hi)
  {
  double dv = (double)v;
  if(!(std::fabs(dv) < 2147483647.0)) { expect_nan = true; return true; } // NaN, inf, too large
  expect_nan = false;
  __float128 s = fabsq((__float128)v) * 65536 + (__float128)0.5; // exact (113 bit) unless |v| is below 2^-60, where floor is 0 either way
  int e; frexpq(s, &e); // s in [2^(e-1), 2^e)
  int mant = std::is_same<FT, float>::value ? 24 : 53;
  __float128 half_ulp = scalbnq((__float128)1, e - 1 - (mant - 1) - 1);
  // delta = 0 when s is representable in FT
  FT sr = (FT)s; bool representable = (__float128)sr == s;
  __float128 d = representable ? (__float128)0 : half_ulp;
  __float128 l = floorq(s - d), h = floorq(s + d);
  if(l < 0) l = 0;
  int64_t li = (int64_t)l, hi_ = (int64_t)h;
  if(v < 0) { lo = -hi_; hi = -li; } else { lo = li; hi = hi_; }
  return true;
  }
template<class FT> void judge_from_float(Ctx & c, std::vector<Fn> & fns, int64_t bits, FT v)
  {
  bool en; int64_t lo = 0, hi = 0; conv_oracle<FT>(v, en, lo, hi);
  double dv = (double)v; double av = std::fabs(dv);
  if(en) c.stratum(std::isnan(dv) ? "float-nan" : (std::isinf(dv) ? "float-inf" : "float-too-large"));
  else c.stratum(lo != hi ? "float-two-admissible" : "float-in-range");
  if(en || av > 2147483000.0 || lo != hi || (av > 0 && av < 1e-4)) c.nontrivial(hash3(sizeof(FT), bits, 0));
  // exact half-way case k+1/2 ulp
  if(!en && lo == hi) { __float128 s = fabsq((__float128)v) * 65536; if(s - floorq(s) == (__float128)0.5) c.stratum("float-halfway"); }
  for(auto & f : fns)
    for(size_t ci = 0; ci < g_cfgs.size(); ++ci)
      {
      if(g_cfgs[ci].fastmath && (std::isnan(dv) || std::isinf(dv))) continue; // -ffast-math builds promise nothing for NaN / inf inputs
      CallRes r = c.call(f.f[ci], bits, 0);
      if(r.sig) { c.signal_event((int)ci, f.entry.c_str(), bits, 0, r.sig); continue; }
      if(en) { if(!model_isnan(r.v)) c.violation(f.entry + (std::isnan(dv) ? "/nan-input/not-nan" : (std::isinf(dv) ? "/inf-input/not-nan" : "/too-large/not-nan")), (int)ci, bits, 0, 0, i2s(r.v), "NaN"); }
      else if(r.v < lo || r.v > hi)
        c.violation(f.entry + (model_isnan(r.v) ? "/in-range/nan" : "/in-range/not-nearest"), (int)ci, bits, 0, 0, i2s(r.v), "[" + i2s(lo) + "," + i2s(hi) + "]");
      }
  }
void j_from_f32(Ctx & c, int64_t bits, int64_t, int64_t) { judge_from_float<float>(c, FROM_F32, bits & 0xffffffffll, bits2f(bits)); }
void j_from_f64(Ctx & c, int64_t bits, int64_t, int64_t) { judge_from_float<double>(c, FROM_F64, bits, bits2d(bits)); }
void j_to_float(Ctx & c, int64_t raw, int64_t, int64_t)
  {
  if(!model_finite(raw)) return;
  i128 ar = raw < 0 ? -(i128)raw : (i128)raw;
  bool exact_dom = ar <= ((i128)1 << 53);
  c.stratum(exact_dom ? "to-double-exact-domain" : "to-double-beyond-2^53");
  if(ar >= ((i128)1 << 24)) c.stratum("to-float-rounds");
  if(ar > ((i128)1 << 52) || (ar & 0xff) == 0x80) c.nontrivial(hash3(55, raw, 0));
  long double ex = (long double)raw / 65536.0L; // exact: 63 significant bits
  double ed = (double)ex; float ef = (float)ex;   // one rounding each
  for(size_t ci = 0; ci < g_cfgs.size(); ++ci)
    {
    for(auto & f : TO_F64)
      {
      CallRes r = c.call(f.f[ci], raw, 0);
      if(r.sig) { c.signal_event((int)ci, f.entry.c_str(), raw, 0, r.sig); continue; }
      if(exact_dom && (long double)bits2d(r.v) != ex) c.violation(f.entry + "/|raw|<=2^53/inexact", (int)ci, raw, 0, 0, hexraw(r.v), hexraw(d2bits(ed)));
      }
    for(auto & f : TO_F32)
      {
      CallRes r = c.call(f.f[ci], raw, 0);
      if(r.sig) { c.signal_event((int)ci, f.entry.c_str(), raw, 0, r.sig); continue; }
      if((r.v & 0xffffffffll) != f2bits(ef)) c.violation(f.entry + "/not-correctly-rounded", (int)ci, raw, 0, 0, hexraw(r.v), hexraw(f2bits(ef)));
      }
    }
  }
void j_roundtrip_f64(Ctx & c, int64_t raw, int64_t, int64_t)
  {
  i128 ar = raw < 0 ? -(i128)raw : (i128)raw;
  if(ar >= ((i128)1 << 47)) return;
  bool top = ar >= (i128)2147483647 * 65536;
  c.stratum(top ? "roundtrip-[2^31-1,2^31)" : "roundtrip-below-2^31-1");
  if(top || ar > (i128)2147483000 * 65536) c.nontrivial(hash3(56, raw, 0));
  for(size_t ci = 0; ci < g_cfgs.size(); ++ci)
    {
    CallRes r = c.call(RT_F64.f[ci], raw, 0);
    if(r.sig) { c.signal_event((int)ci, "rt_f64", raw, 0, r.sig); continue; }
    if(r.v != raw)
      c.violation(std::string("rt_f64/") + (top ? "2^31-1<=|x|<2^31" : "|x|<2^31-1") + (model_isnan(r.v) ? "/nan" : "/not-identity"), (int)ci, raw, 0, 0, i2s(r.v), i2s(raw));
    }
  }
void c05_init()
  {
  FROM_F32 = { resolve("ctor_f32"), resolve("a2f_f32"), resolve("mkf_f32"), resolve("fp2f_f32") };
  FROM_F64 = { resolve("ctor_f64"), resolve("a2f_f64"), resolve("mkf_f64"), resolve("fp2f_f64"), resolve("udl_float") };
  TO_F32 = { resolve("cast_f32"), resolve("f2a_f32"), resolve("f2fp_f32") };
  TO_F64 = { resolve("cast_f64"), resolve("f2a_f64"), resolve("f2fp_f64") };
  RT_F64 = resolve("rt_f64"); RT_F32 = resolve("rt_f32");
  reassign_setup();
  }
extern Property P_C05;
void c05_run(Ctx & c)
  {
  const Check & F32 = P_C05.checks[0], & F64 = P_C05.checks[1], & TOF = P_C05.checks[2], & RT = P_C05.checks[3];
  { const Check & RA = P_C05.checks[4]; const auto & LL = lattice(); uint64_t ridx = 0;
    for(int64_t k = 11; k <= 12; ++k)   // static_cast<double>(x) / static_cast<float>(x) twice with x modified in between
      {
      for(int64_t a : LL) if(c.mine(ridx++)) c.run_check(RA, a, 0, k);
      uint64_t m = c.share(c.n(20000, 2000000)); for(uint64_t i = 0; i < m; ++i) c.run_check(RA, c.rng.logu(), 0, k);
      } }
  // float: bit patterns. thorough: all 2^32; quick: every exponent x boundary mantissas + stride
  if(c.thorough)
    for(uint64_t b = (uint64_t)c.shard; b < (1ull << 32); b += (uint64_t)c.nshards) c.run_check(F32, (int64_t)b);
  else
    {
    uint64_t idx = 0;
    for(uint64_t b = 0; b < (1ull << 32); b += 1021) if(c.mine(idx++)) c.run_check(F32, (int64_t)b);
    for(uint32_t sgn = 0; sgn < 2; ++sgn) for(uint32_t e = 0; e < 256; ++e)
      for(uint32_t m : { 0u, 1u, 2u, 0x400000u, 0x3fffffu, 0x400001u, 0x7fffffu, 0x7ffffeu, 0x7fff80u, 0x7fffc0u, 0x000080u, 0x555555u })
        if(c.mine(idx++)) c.run_check(F32, (int64_t)((sgn << 31) | (e << 23) | m));
    }
  // float halfway cases (k + 1/2)/65536 and neighbours: representable while k < 2^23
  uint64_t n = c.share(c.n(300000, 30000000));
  for(uint64_t i = 0; i < n; ++i)
    {
    int64_t k = (int64_t)c.rng.below(1ull << (1 + c.rng.below(24)));
    float v = (float)(((long double)k + 0.5L) / 65536.0L); if(c.rng.next() & 1) v = -v;
    int64_t b = f2bits(v); c.run_check(F32, b); c.run_check(F32, b + 1); c.run_check(F32, b - 1);
    }
  // double: all exponents x boundary mantissas; halfway cases + nextafter neighbours; range frontier; random
  uint64_t idx = 0;
  for(uint64_t sgn = 0; sgn < 2; ++sgn) for(uint64_t e = 0; e < 2048; ++e)
    for(uint64_t m : { 0ull, 1ull, 2ull, 1ull << 51, (1ull << 51) - 1, (1ull << 51) + 1, (1ull << 52) - 1, (1ull << 52) - 2, 0x5555555555555ull, 1ull << 20, (1ull << 36) - 1 })
      if(c.mine(idx++)) c.run_check(F64, (int64_t)((sgn << 63) | (e << 52) | m));
  n = c.share(c.n(600000, 60000000));
  for(uint64_t i = 0; i < n; ++i)
    {
    int64_t b;
    switch(c.rng.below(5))
      {
      case 0: { int64_t k = (int64_t)c.rng.below(1ull << (1 + c.rng.below(47))); double v = (double)(((long double)k + 0.5L) / 65536.0L); if(c.rng.next() & 1) v = -v; b = d2bits(v) + c.rng.range(-1, 1); break; }
      case 1: { double v = 2147483647.0; b = d2bits(v) + c.rng.range(-40, 40); if(c.rng.next() & 1) b |= (int64_t)(1ull << 63); break; }
      case 2: { int64_t raw = c.rng.logu(48); double v = (double)raw / 65536.0 + ((double)c.rng.range(-3, 3)) / 1048576.0 / 4.0; b = d2bits(v); break; }
      case 3: { // magnitudes where value*65536+0.5 needs rounding in double: |v| >= 2^36
        double v = std::ldexp(1.0 + (double)(c.rng.next() >> 11) / 9007199254740992.0, 20 + (int)c.rng.below(11)); if(c.rng.next() & 1) v = -v; b = d2bits(v); break; }
      default: b = (int64_t)c.rng.next();
      }
    c.run_check(F64, b);
    }
  // fixed -> float/double
  idx = 0;
  for(int64_t x : lattice()) if(c.mine(idx++)) c.run_check(TOF, x);
  n = c.share(c.n(300000, 30000000));
  for(uint64_t i = 0; i < n; ++i)
    {
    int64_t x;
    switch(c.rng.below(4))
      {
      case 0: x = c.rng.logu(54); break;
      case 1: { int sh = (int)c.rng.below(39); x = (int64_t)((((c.rng.next() & 0xffffff) | 0x800000) << 1 | 1) ) << sh; x += c.rng.range(-1, 1); if(c.rng.next() & 1) x = -x; break; } // float rounding ties
      case 2: x = (1ll << 53) + c.rng.range(-4, 4); if(c.rng.next() & 1) x = -x; break;
      default: x = c.rng.logu();
      }
    if(!model_finite(x)) continue;
    c.run_check(TOF, x);
    }
  // round trip |raw| < 2^47: dense windows + log-uniform
  int64_t W = c.thorough ? (1ll << 24) : (1ll << 20);
  for(int64_t x = -W + c.shard; x <= W; x += c.nshards) c.run_check(RT, x);
  for(int64_t d = c.shard; d < (c.thorough ? 4000000 : 200000); d += c.nshards)
    for(int sgn = -1; sgn <= 1; sgn += 2) { c.run_check(RT, sgn * ((1ll << 47) - 1 - d)); c.run_check(RT, sgn * (2147483647ll * 65536 - 100000 + d)); }
  n = c.share(c.n(400000, 40000000));
  for(uint64_t i = 0; i < n; ++i) c.run_check(RT, c.rng.logu(47));
  }
Property P_C05 = { "C05", c05_init, c05_run,
  { { "from_f32", j_from_f32, "fixed_t{float}, arithmetic_to_fixed, make_fixed, floating_point_to_fixed; a = IEEE bit pattern" },
    { "from_f64", j_from_f64, "same for double plus the _fix floating literal; a = IEEE bit pattern" },
    { "to_float", j_to_float, "static_cast<double/float>, fixed_to_arithmetic, fixed_to_floating_point; a = finite raw" },
    { "roundtrip_f64", j_roundtrip_f64, "fixed -> double -> fixed for |raw| < 2^47" },
    { "reassign", judge_reassign, "static_cast<double>(x) / static_cast<float>(x) twice in one function with x modified in between; c = shape 11..12" } },
  { "float-nan", "float-inf", "float-too-large", "float-in-range", "float-two-admissible", "float-halfway", "to-double-exact-domain", "to-double-beyond-2^53", "to-float-rounds", "roundtrip-[2^31-1,2^31)", "roundtrip-below-2^31-1" },
  "input expected NaN, |v| within 650 of 2^31-1, |v| < 1e-4, or the scaling step admits two results; fixed->float with |raw| > 2^52 or a float tie pattern; round trip with |x| near 2^31-1; distinct by bit pattern",
  { "every float exponent x 12 boundary mantissas", "every double exponent x 11 boundary mantissas" }, { "all 2^32 float bit patterns", "every double exponent x 11 boundary mantissas" } };
Registrar R_C05(&P_C05);

// ============================================================================================ C16
struct Mixed { Fn op_fT[4], op_Tf[4], eq[4]; Fn conv; bool has_eq; };
Mixed MX[12];
Fn OP_FF[4], CAST_F64;
const char * OPN[4] = { "add", "sub", "mul", "div" };
inline bool both_nan_d(int64_t x, int64_t y) { return std::isnan(bits2d(x)) && std::isnan(bits2d(y)); }
template<int TI> void j_mixed(Ctx & c, int64_t a, int64_t t, int64_t)
  {
  if(!model_finite(a)) return;
  Mixed & m = MX[TI];
  const bool is_int = TI < 8 || TI >= 10, is_dbl = TI == 9;
  for(size_t ci = 0; ci < g_cfgs.size(); ++ci)
    {
    if(is_dbl)
      {
      CallRes da = c.call(CAST_F64.f[ci], a, 0);
      if(da.sig) { c.signal_event((int)ci, "cast_f64", a, 0, da.sig); continue; }
      volatile double x = bits2d(da.v), y = bits2d(t);
      double e_fT[4] = { x + y, x - y, x * y, x / y }, e_Tf[4] = { y + x, y - x, y * x, y / x };
      c.stratum("double-operand");
      if(std::isnan(y) || std::isinf(y) || y == 0) { c.stratum("double-special"); c.nontrivial(hash3(169, a, t)); }
      for(int op = 0; op < 4; ++op)
        {
        CallRes r1 = c.call(m.op_fT[op].f[ci], a, t), r2 = c.call(m.op_Tf[op].f[ci], a, t);
        if(r1.sig || r2.sig) { c.signal_event((int)ci, m.op_fT[op].entry.c_str(), a, t, r1.sig ? r1.sig : r2.sig); continue; }
        if(r1.v != d2bits(e_fT[op]) && !both_nan_d(r1.v, d2bits(e_fT[op]))) c.violation(m.op_fT[op].entry + "/not-ieee-result", (int)ci, a, t, 0, hexraw(r1.v), hexraw(d2bits(e_fT[op])));
        if(r2.v != d2bits(e_Tf[op]) && !both_nan_d(r2.v, d2bits(e_Tf[op]))) c.violation(m.op_Tf[op].entry + "/not-ieee-result", (int)ci, a, t, 0, hexraw(r2.v), hexraw(d2bits(e_Tf[op])));
        }
      continue;
      }
    CallRes cv = c.call(m.conv.f[ci], t, 0);
    if(cv.sig) { c.signal_event((int)ci, m.conv.entry.c_str(), t, 0, cv.sig); continue; }
    bool conv_ok = !model_isnan(cv.v);
    i128 nv = is_int ? int_value(INT_TYPES[int_index_of_mixed(TI)], t) : 0;
    for(int op = 0; op < 4; ++op)
      {
      CallRes r1 = c.call(m.op_fT[op].f[ci], a, t), r2 = c.call(m.op_Tf[op].f[ci], a, t), r3 = c.call(m.eq[op].f[ci], a, t);
      if(r1.sig || r2.sig || r3.sig) { c.signal_event((int)ci, m.op_fT[op].entry.c_str(), a, t, r1.sig ? r1.sig : (r2.sig ? r2.sig : r3.sig)); continue; }
      if(r3.v != r1.v) c.violation(m.eq[op].entry + "/compound-differs-from-binary", (int)ci, a, t, 0, i2s(r3.v), i2s(r1.v));
      bool int_exact_fT = is_int && (op == 2 || op == 3), int_exact_Tf = is_int && op == 2;
      // fixed op T
      if(int_exact_fT)
        {
        c.stratum("integer-exact-path");
        if(!conv_ok) { c.stratum("integer-beyond-2^31"); c.nontrivial(hash3(160 + TI, a, t)); }
        if(op == 2)
          {
          i128 E = (i128)a * nv; bool in = E >= RAW_LOWEST && E <= RAW_MAX;
          if(in ? r1.v != (int64_t)E : !model_isnan(r1.v)) c.violation(m.op_fT[op].entry + (in ? "/exact-product/wrong-value" : "/exact-product/out-of-range-not-nan"), (int)ci, a, t, 0, i2s(r1.v), in ? i128s(E) : "NaN");
          }
        else
          {
          if(nv == 0) { if(!model_isnan(r1.v)) c.violation(m.op_fT[op].entry + "/zero-divisor/not-nan", (int)ci, a, t, 0, i2s(r1.v), "NaN"); }
          else
            {
            i128 q = (i128)a / nv, fl = q; if(((i128)a % nv != 0) && ((a < 0) != (nv < 0))) fl = q - 1;
            if((i128)r1.v != q && (i128)r1.v != fl) c.violation(m.op_fT[op].entry + "/exact-quotient/wrong-value", (int)ci, a, t, 0, i2s(r1.v), i128s(q));
            }
          }
        }
      else if(conv_ok)
        {
        c.stratum("promoted-path");
        CallRes e = c.call(OP_FF[op].f[ci], a, cv.v);
        if(e.sig) { c.signal_event((int)ci, OP_FF[op].entry.c_str(), a, cv.v, e.sig); }
        else if(r1.v != e.v) c.violation(m.op_fT[op].entry + "/differs-from-promoted", (int)ci, a, t, 0, i2s(r1.v), i2s(e.v));
        }
      // T op fixed
      if(int_exact_Tf)
        {
        i128 E = (i128)a * nv; bool in = E >= RAW_LOWEST && E <= RAW_MAX;
        if(in ? r2.v != (int64_t)E : !model_isnan(r2.v)) c.violation(m.op_Tf[op].entry + (in ? "/exact-product/wrong-value" : "/exact-product/out-of-range-not-nan"), (int)ci, a, t, 0, i2s(r2.v), in ? i128s(E) : "NaN");
        }
      else if(conv_ok)
        {
        CallRes e = c.call(OP_FF[op].f[ci], cv.v, a);
        if(e.sig) { c.signal_event((int)ci, OP_FF[op].entry.c_str(), cv.v, a, e.sig); }
        else if(r2.v != e.v) c.violation(m.op_Tf[op].entry + "/differs-from-promoted", (int)ci, a, t, 0, i2s(r2.v), i2s(e.v));
        }
      }
    }
  }
void j_const_scalar(Ctx & c, int64_t a, int64_t which, int64_t)
  {
  if(!model_finite(a)) return;
  c.stratum("literal-integer-operand");
  judge_mul_const(c, a, which, 0); judge_div_const(c, a, which, 0);
  }
void c16_init()
  {
  (void)const_scalar_count(); // resolve the literal-operand entry points before worker threads start
  for(int op = 0; op < 4; ++op) OP_FF[op] = resolve((std::string(OPN[op]) + "_ff").c_str());
  CAST_F64 = resolve("cast_f64");
  for(int i = 0; i < 12; ++i)
    {
    std::string t = TAGS10[i];
    for(int op = 0; op < 4; ++op)
      {
      MX[i].op_fT[op] = resolve((std::string(OPN[op]) + "_f" + t).c_str());
      MX[i].op_Tf[op] = resolve((std::string(OPN[op]) + "_" + t + "f").c_str());
      if(i != 9) MX[i].eq[op] = resolve((std::string(OPN[op]) + "eq_f" + t).c_str());
      }
    MX[i].conv = resolve(("ctor_" + t).c_str()); MX[i].has_eq = i != 9;
    }
  }
extern Property P_C16;
void c16_run(Ctx & c)
  {
  const auto & L = lattice(); const auto & S = lattice_small();
  { const Check & KC = P_C16.checks[10]; uint64_t idx = 0; const i128 P63 = (i128)1 << 63;
    for(size_t k = 0; k < const_scalar_count(); ++k)
      {
      for(int64_t a : L) if(c.mine(idx++)) c.run_check(KC, a, (int64_t)k);
      i128 K = const_scalar_value(k); uint64_t m = c.share(c.n(10000, 1000000));
      for(uint64_t i = 0; i < m; ++i) c.run_check(KC, (i & 1) || K == 0 ? c.rng.logu() : clamp_finite(((c.rng.next() & 1) ? P63 : -P63) / K + c.rng.range(-4, 4)), (int64_t)k);
      } }
  for(int ti = 0; ti < 12; ++ti)
    {
    const Check & K = P_C16.checks[ti < 10 ? (size_t)ti : (size_t)ti + 1]; // index 10 is const_scalar
    uint64_t idx = 0;
    if(ti < 8 || ti >= 10)
      {
      const IntType & t = INT_TYPES[int_index_of_mixed(ti)];
      if(t.bits <= 16)
        { int64_t step = (t.bits == 16) ? (c.thorough ? 3 : 61) : 1; for(int64_t v = (int64_t)t.lo; v <= (int64_t)t.hi; v += step) for(int64_t a : S) if(c.mine(idx++)) c.run_check(K, a, v); }
      for(int64_t a : L) for(i128 v : { t.lo, t.hi, (i128)0, (i128)1, (i128)2, (i128)(t.is_signed ? -1 : 3), (i128)2147483647, (i128)2147483648ll })
        if(v >= t.lo && v <= t.hi && c.mine(idx++)) c.run_check(K, a, (int64_t)(uint64_t)(u128)v);
      uint64_t m = c.share(c.n(40000, 4000000));
      for(uint64_t i = 0; i < m; ++i) c.run_check(K, (i & 1) ? c.rng.logu() : L[c.rng.below(L.size())], random_of_type(c.rng, t));
      }
    else
      {
      uint64_t m = c.share(c.n(120000, 12000000));
      for(uint64_t i = 0; i < m; ++i)
        {
        int64_t a = (i & 1) ? c.rng.logu() : L[c.rng.below(L.size())]; int64_t t;
        if(ti == 8)
          {
          switch(c.rng.below(4))
            {
            case 0: t = f2bits((float)c.rng.range(-70000, 70000) / 16.0f); break;
            case 1: t = f2bits((float)((double)c.rng.logu(47) / 65536.0)); break;
            case 2: t = (int64_t)(c.rng.next() & 0xffffffffu); break;
            default: t = f2bits((float)c.rng.range(-5, 5));
            }
          }
        else
          {
          switch(c.rng.below(5))
            {
            case 0: t = d2bits((double)c.rng.range(-70000, 70000) / 16.0); break;
            case 1: t = d2bits((double)c.rng.logu(60) / 65536.0); break;
            case 2: t = (int64_t)c.rng.next(); break;
            case 3: { const double sp[] = { 0.0, -0.0, 1.0, -1.0, INFINITY, -INFINITY, NAN, 1e308, 5e-324, 0.1, 65536.0, 1.0 / 65536.0 }; t = d2bits(sp[c.rng.below(12)]); break; }
            default: t = d2bits((double)c.rng.range(-5, 5));
            }
          }
        c.run_check(K, a, t);
        }
      }
    }
  }
Property P_C16 = { "C16", c16_init, c16_run,
  { { "mixed_i8", j_mixed<0>, "a op t, t op a, a op= t for op in + - * /; a = finite raw, b = scalar (value / IEEE bits)" }, { "mixed_i16", j_mixed<1>, "" }, { "mixed_i32", j_mixed<2>, "" }, { "mixed_i64", j_mixed<3>, "" },
    { "mixed_u8", j_mixed<4>, "" }, { "mixed_u16", j_mixed<5>, "" }, { "mixed_u32", j_mixed<6>, "" }, { "mixed_u64", j_mixed<7>, "" }, { "mixed_f32", j_mixed<8>, "", true },
    { "mixed_f64", j_mixed<9>, "double operand: result bits against IEEE arithmetic on double(a) and t in written order (no compound forms exist)", true },
    { "const_scalar", j_const_scalar, "a*K, K*a, a*=K, a/K, a/=K with a literal integer K at the call site use the integer exactly; a raw, b index of K" },
    { "mixed_ll", j_mixed<10>, "long long operand (distinct from int64_t)" }, { "mixed_ull", j_mixed<11>, "unsigned long long operand" } },
  { "literal-integer-operand", "integer-exact-path", "integer-beyond-2^31", "promoted-path", "double-operand", "double-special" },
  "integer operand beyond +-(2^31-1) on the exact scalar path, or a double operand that is NaN, infinite or zero; distinct by (a,t,type)", {}, {} };
Registrar R_C16(&P_C16);

// ============================================================================================ C17
Fn A_ADD, A_SUB, A_MUL, A_DIV, A_NEG, A_ADDSUB, A_SUBADD, A_MULI[N_INT], A_DIVI[N_INT], A_IMUL[N_INT], A_ACCUM;
#define CALL1(var, fn, x, y) CallRes var = c.call(fn.f[ci], x, y); if(var.sig) { c.signal_event((int)ci, fn.entry.c_str(), x, y, var.sig); continue; }
void j_comm(Ctx & c, int64_t a, int64_t b, int64_t)
  {
  if(!model_finite(a) || !model_finite(b)) return;
  c.stratum("commutativity");
  for(size_t ci = 0; ci < g_cfgs.size(); ++ci)
    {
    CALL1(s1, A_ADD, a, b) CALL1(s2, A_ADD, b, a) CALL1(p1, A_MUL, a, b) CALL1(p2, A_MUL, b, a)
    if(model_isnan(s1.v) || model_isnan(p1.v)) { c.stratum("law-with-nan-result"); c.nontrivial(hash3(171, a, b)); }
    if(s1.v != s2.v) c.violation("add/not-commutative", (int)ci, a, b, 0, i2s(s1.v), i2s(s2.v));
    if(p1.v != p2.v) c.violation("mul/not-commutative", (int)ci, a, b, 0, i2s(p1.v), i2s(p2.v));
    CALL1(d, A_SUB, a, b) CALL1(nb, A_NEG, b, 0) CALL1(d2, A_ADD, a, nb.v) CALL1(z, A_SUB, a, a)
    if(d.v != d2.v) c.violation("sub/differs-from-add-negated", (int)ci, a, b, 0, i2s(d.v), i2s(d2.v));
    if(z.v != 0) c.violation("sub/a-a-not-zero", (int)ci, a, b, 0, i2s(z.v), "0");
    }
  }
void j_unit(Ctx & c, int64_t a, int64_t, int64_t)
  {
  i128 aa = a < 0 ? -(i128)a : (i128)a;
  if(aa >= ((i128)1 << 47)) return;
  c.stratum("unit-laws"); if(aa >= ((i128)1 << 46) || a == 0) c.nontrivial(hash3(172, a, 0));
  for(size_t ci = 0; ci < g_cfgs.size(); ++ci)
    {
    CALL1(m1, A_MUL, a, ONE) CALL1(m0, A_MUL, a, 0) CALL1(d1, A_DIV, a, ONE) CALL1(i1, A_MULI[2], a, 1) CALL1(i0, A_MULI[2], a, 0) CALL1(q1, A_DIVI[2], a, 1)
    if(m1.v != a) c.violation("mul/a*1", (int)ci, a, 0, 0, i2s(m1.v), i2s(a));
    if(m0.v != 0) c.violation("mul/a*0", (int)ci, a, 0, 0, i2s(m0.v), "0");
    if(d1.v != a) c.violation("div/a/1", (int)ci, a, 0, 0, i2s(d1.v), i2s(a));
    if(i1.v != a) c.violation("mul_int/a*1", (int)ci, a, 0, 0, i2s(i1.v), i2s(a));
    if(i0.v != 0) c.violation("mul_int/a*0", (int)ci, a, 0, 0, i2s(i0.v), "0");
    if(q1.v != a) c.violation("div_int/a/1", (int)ci, a, 0, 0, i2s(q1.v), i2s(a));
    if(a != 0) { CALL1(dd, A_DIV, a, a) if(dd.v != ONE) c.violation("div/a/a", (int)ci, a, 0, 0, i2s(dd.v), i2s(ONE)); }
    }
  }
void j_triple(Ctx & c, int64_t a, int64_t b, int64_t cc)
  {
  if(!model_finite(a) || !model_finite(b) || !model_finite(cc)) return;
  for(size_t ci = 0; ci < g_cfgs.size(); ++ci)
    {
    CALL1(ab, A_ADD, a, b)
    if(!model_isnan(ab.v))
      {
      c.stratum("add-sub-back");
      CALL1(back, A_SUB, ab.v, b)
      if(!model_isnan(back.v) && back.v != a) c.violation("add_sub/(a+b)-b", (int)ci, a, b, cc, i2s(back.v), i2s(a));
      CALL1(fused, A_ADDSUB, a, b)
      if(!model_isnan(fused.v) && fused.v != a) c.violation("add_sub_back/(a+b)-b-fused", (int)ci, a, b, cc, i2s(fused.v), i2s(a));
      }
    else { c.stratum("law-with-nan-intermediate"); c.nontrivial(hash3(173, a, b, cc)); }
    CALL1(bc, A_ADD, b, cc)
    if(!model_isnan(ab.v) && !model_isnan(bc.v))
      {
      CALL1(l, A_ADD, ab.v, cc) CALL1(r, A_ADD, a, bc.v)
      if(!model_isnan(l.v) && !model_isnan(r.v)) { c.stratum("associativity"); if(l.v != r.v) c.violation("add/not-associative", (int)ci, a, b, cc, i2s(l.v), i2s(r.v)); }
      }
    if(a < b)
      {
      CALL1(x, A_ADD, a, cc) CALL1(y, A_ADD, b, cc)
      if(!model_isnan(x.v) && !model_isnan(y.v)) { c.stratum("order-preservation"); if(!(x.v <= y.v)) c.violation("add/order-not-preserved", (int)ci, a, b, cc, i2s(x.v), "<= " + i2s(y.v)); }
      }
    }
  }
void j_scalar_laws(Ctx & c, int64_t a, int64_t nraw, int64_t ti)
  {
  if(ti < 0 || ti >= N_INT || !model_finite(a)) return;
  const IntType & t = INT_TYPES[ti]; i128 n = int_value(t, nraw);
  for(size_t ci = 0; ci < g_cfgs.size(); ++ci)
    {
    CALL1(p, A_MULI[ti], a, nraw)
    i128 E = (i128)a * n;
    if(E > RAW_MAX || E < RAW_LOWEST) { c.stratum("scalar-product-overflows"); c.nontrivial(hash3(174, a, nraw, ti)); }
    if(model_isnan(p.v)) continue;
    if(n != 0)
      {
      c.stratum("mul-div-back");
      CALL1(q, A_DIVI[ti], p.v, nraw)
      if(!model_isnan(q.v) && q.v != a) c.violation(std::string("muldiv_") + t.tag + "/(a*n)/n", (int)ci, a, nraw, ti, i2s(q.v), i2s(a));
      }
    if(n >= 0 && n <= 1024)
      {
      c.stratum("repeated-addition");
      int64_t s = 0; bool nan = false, sig = false;
      for(i128 i = 0; i < n && !nan; ++i) { CallRes r = c.call(A_ADD.f[ci], s, a); if(r.sig) { c.signal_event((int)ci, "add_ff", s, a, r.sig); sig = true; break; } s = r.v; nan = model_isnan(s); }
      if(!nan && !sig && s != p.v) c.violation(std::string("mul_") + t.tag + "/differs-from-repeated-addition", (int)ci, a, nraw, ti, i2s(p.v), i2s(s));
      // the same sum accumulated with += in a counted loop (statement form, result of += unused)
      if(!nan && !sig && n >= 1 && n <= 64) { CallRes acc = c.call(A_ACCUM.f[ci], a, (int64_t)n - 1); /* add_accum(a, k) = a followed by k times (+= a) */ if(!acc.sig && !model_isnan(acc.v) && acc.v != s) c.violation("add_accum/differs-from-repeated-addition", (int)ci, a, nraw, ti, i2s(acc.v), i2s(s)); }
      }
    { // n*a, integer on the left, is the same product
      CallRes pl = c.call(A_IMUL[ti].f[ci], a, nraw);
      if(!pl.sig && pl.v != p.v && !(model_isnan(pl.v) && model_isnan(p.v))) c.violation(std::string("mul_") + t.tag + "/n*a-differs-from-a*n", (int)ci, a, nraw, ti, i2s(pl.v), i2s(p.v));
    }
    }
  }
// random operation sequence against an exact shadow; a = program seed, b = length
void j_sequence(Ctx & c, int64_t pseed, int64_t len, int64_t)
  {
  if(len < 1 || len > 12) return;
  for(size_t ci = 0; ci < g_cfgs.size(); ++ci)
    {
    Rng r; r.seed((uint64_t)pseed, 77);
    int64_t v = r.logu(r.below(2) ? 62 : 40); i128 shadow = v; bool shadow_out = false; bool ok = true;
    std::string prog = i2s(v);
    for(int64_t i = 0; i < len && ok; ++i)
      {
      int op = (int)r.below(5); int64_t operand = 0; CallRes res{ 0, 0 };
      switch(op)
        {
        case 0: operand = r.logu(r.below(2) ? 62 : 40); res = c.call(A_ADD.f[ci], v, operand); shadow += operand; prog += " +" + i2s(operand); break;
        case 1: operand = r.logu(r.below(2) ? 62 : 40); res = c.call(A_SUB.f[ci], v, operand); shadow -= operand; prog += " -" + i2s(operand); break;
        case 2:
          { // * n with n carried by a random integral type (promotion paths differ per type)
          int ti = (int)r.below(N_INT); const IntType & t = INT_TYPES[ti];
          i128 n = r.range(-9, 9) * (r.below(4) == 0 ? 100000 : 1); if(r.below(16) == 0) n = int_value(t, random_of_type(r, t));
          if(n < t.lo || n > t.hi) n = t.is_signed ? (i128)-3 : (i128)3;
          operand = (int64_t)(uint64_t)(u128)n; res = c.call(A_MULI[ti].f[ci], v, operand); shadow *= n; prog += std::string(" *(") + t.tag + ")" + i128s(n); break;
          }
        case 3:
          {
          int ti = (int)r.below(N_INT); const IntType & t = INT_TYPES[ti];
          i128 n = r.range(1, 9) * ((r.next() & 1) ? -1 : 1); if(r.below(16) == 0) n = int_value(t, random_of_type(r, t));
          if(n < t.lo || n > t.hi || n == 0) n = 3;
          operand = (int64_t)(uint64_t)(u128)n; res = c.call(A_DIVI[ti].f[ci], v, operand); shadow = shadow / n; prog += std::string(" /(") + t.tag + ")" + i128s(n); break;
          }
        default: res = c.call(A_NEG.f[ci], v, 0); shadow = -shadow; prog += " neg"; break;
        }
      if(res.sig) { c.signal_event((int)ci, "sequence", pseed, len, res.sig); ok = false; break; }
      if(shadow > RAW_MAX || shadow < RAW_LOWEST) shadow_out = true;
      if(shadow_out)
        {
        c.stratum("sequence-leaves-range"); c.nontrivial(hash3(175, pseed, len));
        if(!model_isnan(res.v)) c.violation("sequence/shadow-out-of-range/not-nan", (int)ci, pseed, len, 0, i2s(res.v) + " after: " + prog, "NaN");
        ok = false; break; // operations on NaN are outside the statement
        }
      if(res.v != (int64_t)shadow) { c.violation(std::string("sequence/") + (model_isnan(res.v) ? "in-range/nan" : "in-range/wrong-value"), (int)ci, pseed, len, 0, i2s(res.v) + " after: " + prog, i128s(shadow)); ok = false; break; }
      v = res.v;
      }
    if(ok) c.stratum("sequence-completed");
    if(ci == 0) c.sample("sequence", pseed, len, 0, g_cfgs[0].name.c_str(), v, prog.c_str());
    }
  }
void c17_init()
  {
  A_ADD = resolve("add_ff"); A_SUB = resolve("sub_ff"); A_MUL = resolve("mul_ff"); A_DIV = resolve("div_ff"); A_NEG = resolve("neg");
  A_ADDSUB = resolve("add_sub_back"); A_SUBADD = resolve("sub_add_back");
  for(int i = 0; i < N_INT; ++i) { std::string t = INT_TYPES[i].tag; A_MULI[i] = resolve(("mul_f" + t).c_str()); A_DIVI[i] = resolve(("div_f" + t).c_str()); A_IMUL[i] = resolve(("mul_" + t + "f").c_str()); }
  A_ACCUM = resolve("add_accum");
  }
extern Property P_C17;
void c17_run(Ctx & c)
  {
  const Check & COMM = P_C17.checks[0], & UNIT = P_C17.checks[1], & TRI = P_C17.checks[2], & SC = P_C17.checks[3], & SEQ = P_C17.checks[4];
  const auto & L = lattice(); const auto & S = lattice_small();
  uint64_t idx = 0;
  for(int64_t a : L) for(int64_t b : L) if(c.mine(idx++)) c.run_check(COMM, a, b);
  for(int64_t a : L) if(c.mine(idx++)) c.run_check(UNIT, a);
  for(int64_t a : S) for(int64_t b : S) for(int64_t d : S) if(c.mine(idx++)) c.run_check(TRI, a, b, d);
  uint64_t n = c.share(c.n(300000, 30000000));
  for(uint64_t i = 0; i < n; ++i)
    {
    int64_t a = c.rng.logu(), b = (i & 1) ? c.rng.logu() : clamp_finite((i128)((c.rng.next() & 1) ? RAW_MAX : RAW_LOWEST) - a + c.rng.range(-3, 3)), d = c.rng.logu();
    c.run_check(COMM, a, b); c.run_check(TRI, a, b, d); c.run_check(TRI, a, d, b);
    c.run_check(UNIT, c.rng.logu(47));
    }
  for(int ti = 0; ti < N_INT; ++ti)
    {
    const IntType & t = INT_TYPES[ti];
    uint64_t m = c.share(c.n(40000, 4000000));
    for(uint64_t i = 0; i < m; ++i)
      {
      int64_t nraw = (i % 3 == 0) ? (int64_t)c.rng.below((uint64_t)std::min<i128>(t.hi, 1024) + 1) : random_of_type(c.rng, t);
      i128 nv = int_value(t, nraw); int64_t a;
      if((i & 1) && nv != 0) a = clamp_finite(((c.rng.next() & 1) ? P63 : -P63) / nv + c.rng.range(-3, 3)); else a = c.rng.logu((i & 2) ? 62 : 36);
      c.run_check(SC, a, nraw, ti);
      }
    idx = 0;
    for(int64_t a : S) for(i128 v : { (i128)0, (i128)1, (i128)2, (i128)3, (i128)7, (i128)1024, t.hi, t.lo, (i128)-1 }) if(v >= t.lo && v <= t.hi && c.mine(idx++)) c.run_check(SC, a, (int64_t)(uint64_t)(u128)v, ti);
    }
  n = c.share(c.n(200000, 20000000));
  for(uint64_t i = 0; i < n; ++i) c.run_check(SEQ, (int64_t)(c.rng.next() >> 1), c.rng.range(1, 12));
  }
Property P_C17 = { "C17", c17_init, c17_run,
  { { "comm", j_comm, "a+b==b+a, a*b==b*a bit-for-bit, a-b==a+(-b), a-a==0; a,b raw" },
    { "unit", j_unit, "a*1, a*0, a/1, a/a for |a| < 2^31 (fixed and integer unit); a raw" },
    { "triple", j_triple, "(a+b)-b==a (two calls and fused), (a+b)+c==a+(b+c), a<b => a+c<=b+c, whenever no intermediate is NaN; a,b,c raw" },
    { "scalar_laws", j_scalar_laws, "(a*n)/n==a, a*n == a added n times (0<=n<=1024); a raw, b scalar, c type index" },
    { "sequence", j_sequence, "random program over + - *n /n neg against an exact int128 shadow; a = program seed, b = length (<=12)" } },
  { "commutativity", "law-with-nan-result", "unit-laws", "add-sub-back", "law-with-nan-intermediate", "associativity", "order-preservation", "mul-div-back", "repeated-addition", "scalar-product-overflows", "sequence-completed", "sequence-leaves-range" },
  "a law instance with a NaN result or intermediate (the guard of the law is exercised), a scalar product leaving the range, |a| >= 2^30 in the unit laws, or a sequence whose shadow leaves the range; distinct by operands / program seed", {}, {} };
Registrar R_C17(&P_C17);

// ============================================================================================ C20
Fn A2R[N_INT]; Fn SINA[12], COSA[12], TANA[12]; // carriers: 8 integer types, f32 (index 8), fixed (index 9)
template<int TI> void j_a2r(Ctx & c, int64_t draw, int64_t, int64_t)
  {
  const IntType & t = INT_TYPES[TI]; i128 d = int_value(t, draw);
  bool in = d >= 0 && d <= 360;
  c.stratum(in ? "angle-in-[0,360]" : "angle-outside");
  if(in || d == -1 || d == 361) c.nontrivial(hash3(200 + TI, draw, 0));
  if(in && d > t.hi / 2 && t.bits == 8) c.stratum("angle>127-in-8bit-carrier");
  long double e = (long double)d * PI_L / 180.0L * 65536.0L;
  for(size_t ci = 0; ci < g_cfgs.size(); ++ci)
    {
    CallRes r = c.call(A2R[TI].f[ci], draw, 0);
    if(r.sig) { c.signal_event((int)ci, A2R[TI].entry.c_str(), draw, 0, r.sig); continue; }
    if(in)
      {
      if(model_isnan(r.v)) c.violation(A2R[TI].entry + "/in-[0,360]/nan", (int)ci, draw, 0, 0, i2s(r.v), ld2s(e));
      else { long double err = fabsl((long double)r.v - e); c.maxi("angle_to_radians_err_ulp", err, A2R[TI].entry.c_str(), draw); if(err > 2.0L + SLACK * 65536) c.violation(A2R[TI].entry + "/in-[0,360]/error>2ulp", (int)ci, draw, 0, 0, i2s(r.v), ld2s(e)); }
      }
    else if(!model_isnan(r.v)) c.violation(A2R[TI].entry + "/outside-[0,360]/not-nan", (int)ci, draw, 0, 0, i2s(r.v), "NaN");
    }
  }
void j_angle_fn(Ctx & c, int64_t d, int64_t, int64_t)
  {
  if(d < -360 || d > 360) return;
  c.stratum("degree-argument"); c.nontrivial(hash3(210, d, 0));
  long double x = (long double)d * PI_L / 180.0L;
  long double s = sinl(x), co = cosl(x), ta = tanl(x);
  bool pole = (d % 180 + 180) % 180 == 90;
  long double rs = fabsl(asinl(s)), rc = fabsl(asinl(co));
  auto f9 = [](long double r) { long double p = r * r * r; p = p * p * p; return p / 362880.0L; };
  long double bs = 7 * ULP + f9(rs) + SLACK, bc = 7 * ULP + f9(rc) + SLACK, bt = 5 * ULP * (1 + ta * ta) + SLACK;
  for(size_t ci = 0; ci < g_cfgs.size(); ++ci)
    {
    int64_t ref[3] = { 0, 0, 0 }; bool have = false;
    for(int k = 0; k < 12; ++k)
      {
      int64_t arg;
      if(k < 8 || k >= 10) { const IntType & t = INT_TYPES[k < 8 ? k : k - 2]; if((i128)d < t.lo || (i128)d > t.hi) continue; arg = d; }
      else if(k == 8) { if(c.fe_mode) continue; /* the float carrier is converted with floating-point arithmetic: legitimately rounding-mode dependent */ arg = f2bits((float)d); }
      else arg = d * 65536;
      CallRes a = c.call(SINA[k].f[ci], arg, 0), b = c.call(COSA[k].f[ci], arg, 0), t = c.call(TANA[k].f[ci], arg, 0);
      if(a.sig || b.sig || t.sig) { c.signal_event((int)ci, SINA[k].entry.c_str(), arg, 0, a.sig ? a.sig : (b.sig ? b.sig : t.sig)); continue; }
      long double es = fabsl(raw2ld(a.v) - s), ec = fabsl(raw2ld(b.v) - co);
      c.maxi("sin_angle_err/bound", es / bs, SINA[k].entry.c_str(), d); c.maxi("cos_angle_err/bound", ec / bc, COSA[k].entry.c_str(), d);
      if(model_isnan(a.v) || es > bs) c.violation(SINA[k].entry + "/error-beyond-bound", (int)ci, d, 0, 0, i2s(a.v), ld2s(s * 65536));
      if(model_isnan(b.v) || ec > bc) c.violation(COSA[k].entry + "/error-beyond-bound", (int)ci, d, 0, 0, i2s(b.v), ld2s(co * 65536));
      if(!pole)
        {
        long double et = fabsl(raw2ld(t.v) - ta); c.maxi("tan_angle_err/bound", et / bt, TANA[k].entry.c_str(), d);
        if(model_isnan(t.v) || et > bt) c.violation(TANA[k].entry + "/error-beyond-bound", (int)ci, d, 0, 0, i2s(t.v), ld2s(ta * 65536));
        }
      if(!have) { ref[0] = a.v; ref[1] = b.v; ref[2] = t.v; have = true; }
      else if(a.v != ref[0] || b.v != ref[1] || t.v != ref[2]) c.violation(SINA[k].entry + "/carrier-types-disagree", (int)ci, d, 0, 0, i2s(a.v) + "," + i2s(b.v) + "," + i2s(t.v), i2s(ref[0]) + "," + i2s(ref[1]) + "," + i2s(ref[2]));
      }
    }
  }
Fn A2R_I128, A2R_I128_SUP;
// angle_to_radians(__int128) in GNU-dialect configurations: angle = (b >> 8) * 2^(b & 0x7f) + a
void j_a2r_i128(Ctx & c, int64_t lo, int64_t enc, int64_t)
  {
  if((enc & 0x80) || lo < INT32_MIN || lo > INT32_MAX) return;
  int sh = (int)(enc & 0x7f); if(sh > 70) sh = 70;
  i128 d = (i128)(enc >> 8) * ((i128)1 << sh) + lo;
  bool in = d >= 0 && d <= 360;
  c.stratum(in ? "int128-angle-in-range" : "int128-angle-outside"); c.nontrivial(hash3(220, lo, enc));
  long double e = (long double)(int64_t)(in ? d : 0) * PI_L / 180.0L * 65536.0L;
  for(size_t ci = 0; ci < g_cfgs.size(); ++ci)
    {
    if(A2R_I128_SUP.f[ci](0, 0) == 0) continue;
    CallRes r = c.call(A2R_I128.f[ci], lo, enc);
    if(r.sig) { c.signal_event((int)ci, "a2r_i128", lo, enc, r.sig); continue; }
    if(in) { if(model_isnan(r.v) || fabsl((long double)r.v - e) > 2.0L + SLACK * 65536) c.violation("a2r_i128/in-[0,360]/wrong", (int)ci, lo, enc, 0, i2s(r.v), ld2s(e)); }
    else if(!model_isnan(r.v)) c.violation("a2r_i128/outside-[0,360]/not-nan", (int)ci, lo, enc, 0, i2s(r.v), "NaN");
    }
  }
void c20_init()
  {
  A2R_I128 = resolve("a2r_i128"); A2R_I128_SUP = resolve("i128_supported");
  for(int i = 0; i < N_INT; ++i) A2R[i] = resolve((std::string("a2r_") + INT_TYPES[i].tag).c_str());
  const char * car[12] = { "i8", "i16", "i32", "i64", "u8", "u16", "u32", "u64", "f32", "fix", "ll", "ull" };
  for(int i = 0; i < 12; ++i) { std::string t = car[i]; SINA[i] = resolve(("sin_angle_" + t).c_str()); COSA[i] = resolve(("cos_angle_" + t).c_str()); TANA[i] = resolve(("tan_angle_" + t).c_str()); }
  }
extern Property P_C20;
void c20_run(Ctx & c)
  {
  for(int ti = 0; ti < N_INT; ++ti)
    {
    const IntType & t = INT_TYPES[ti]; const Check & K = P_C20.checks[ti < 8 ? (size_t)ti : (size_t)ti + 1]; // index 8 is angle_fn
    if(t.bits <= 16) for(int64_t v = (int64_t)t.lo + c.shard; v <= (int64_t)t.hi; v += c.nshards) c.run_check(K, v);
    else
      {
      for(int64_t v = -2000 + c.shard; v <= 2000; v += c.nshards) if((i128)v >= t.lo) c.run_check(K, v);
      if(t.bits == 32 && c.thorough) for(int64_t v = (int64_t)t.lo + c.shard; v <= (int64_t)t.hi; v += c.nshards) c.run_check(K, v);
      uint64_t m = c.share(c.n(100000, 4000000));
      for(uint64_t i = 0; i < m; ++i) c.run_check(K, random_of_type(c.rng, t));
      }
    }
  for(int64_t d = -360 + c.shard; d <= 360; d += c.nshards) c.run_check(P_C20.checks[8], d);
  { const Check & AI = P_C20.checks[11]; uint64_t ii = 0;
    for(int64_t lo : { (int64_t)-1, (int64_t)0, (int64_t)1, (int64_t)45, (int64_t)90, (int64_t)359, (int64_t)360, (int64_t)361, (int64_t)-360 })
      for(int64_t m : { (int64_t)0, (int64_t)1, (int64_t)-1, (int64_t)2, (int64_t)3, (int64_t)-5 }) for(int64_t sh : { 0, 8, 31, 32, 33, 63, 64, 65, 70 }) if(c.mine(ii++)) c.run_check(AI, lo, m * 256 + sh);
    uint64_t n = c.share(c.n(20000, 2000000)); for(uint64_t i = 0; i < n; ++i) c.run_check(AI, c.rng.range(-400, 400), c.rng.range(-9, 9) * 256 + c.rng.range(0, 70)); }
  }
Property P_C20 = { "C20", c20_init, c20_run,
  { { "a2r_i8", j_a2r<0>, "angle_to_radians<T>(d); a = value of the type" }, { "a2r_i16", j_a2r<1>, "" }, { "a2r_i32", j_a2r<2>, "" }, { "a2r_i64", j_a2r<3>, "" },
    { "a2r_u8", j_a2r<4>, "" }, { "a2r_u16", j_a2r<5>, "" }, { "a2r_u32", j_a2r<6>, "" }, { "a2r_u64", j_a2r<7>, "" },
    { "angle_fn", j_angle_fn, "sin_angle/cos_angle/tan_angle(d) for every carrier type that can hold d; a = d in [-360,360]" },
    { "a2r_ll", j_a2r<8>, "long long" }, { "a2r_ull", j_a2r<9>, "unsigned long long" },
    { "a2r_i128", j_a2r_i128, "__int128 carrier (GNU-dialect configurations): angle = (b >> 8) * 2^(b & 0x7f) + a" } },
  { "angle-in-[0,360]", "angle-outside", "angle>127-in-8bit-carrier", "degree-argument" },
  "d in [0,360] or adjacent (-1, 361) for angle_to_radians; every d in [-360,360] for the *_angle functions; distinct by (d,type)",
  { "every value of the 8/16-bit types for angle_to_radians", "every d in [-360,360] x every carrier type" },
  { "every value of the 8/16/32-bit types for angle_to_radians", "every d in [-360,360] x every carrier type" } };
Registrar R_C20(&P_C20);
}

// Monitor core: configuration loading, guarded calls, PRNG, generators, statistics, JSON output.
// The monitor never links library code: everything under test is reached through the
// w_entries tables of the dlopen'ed per-configuration wrapper objects.
#pragma once
#include <cstdint>
#include <cstdio>
#include <cstdlib>
#include <cstring>
#include <cinttypes>
#include <csetjmp>
#include <csignal>
#include <cmath>
#include <cfenv>
#include <string>
#include <vector>
#include <map>
#include <unordered_set>
#include <functional>
#include <algorithm>
#include <limits>

typedef __int128 i128;
typedef unsigned __int128 u128;
typedef int64_t (*fn2)(int64_t, int64_t);

static const int64_t RAW_MAX = 0x7ffffffffffffffell;   // numeric_limits<fixed_t>::max()
static const int64_t RAW_LOWEST = -0x7ffffffffffffffell; // lowest()
static const int64_t RAW_NAN = 0x7fffffffffffffffll;   // quiet_NaN
static const int64_t RAW_NNAN = -0x7fffffffffffffffll; // -quiet_NaN
static const int64_t ONE = 65536;
static const int64_t PHI = 205887, PHI2 = 102944 /*library pi/2 constant*/, TWO_PHI = 411774;
static const long double ULP = 1.0L / 65536.0L;
static const long double SLACK = 0x1p-40L; // oracle soundness slack, DESIGN 4.2
static const long double PI_L = 3.14159265358979323846264338327950288L;

inline bool model_isnan(int64_t v) { return v == RAW_NAN || v == RAW_NNAN; }
inline bool model_finite(int64_t v) { return v >= RAW_LOWEST && v <= RAW_MAX; }
// |x| that is safe for INT64_MIN (saturates): judges receive arbitrary 64-bit arguments from --replay and from the fuzz arm
inline int64_t sabs(int64_t x) { return x == INT64_MIN ? INT64_MAX : (x < 0 ? -x : x); }

struct Cfg
  {
  std::string name, path;
  void * handle = nullptr;
  std::map<std::string, fn2> tab;
  int sqrt_algo = -1; // measured fingerprint: 0 = std::sqrt based, 1 = abacus
  bool fastmath = false; // built with -ffast-math: non-finite floating inputs are outside what the build promises to handle
  bool constexpr_sqrt = false;
  long cplusplus = 0;
  };
extern std::vector<Cfg> g_cfgs;

struct Fn
  {
  std::string entry;
  std::vector<fn2> f; // one per configuration
  };
Fn resolve(const char * entry); // harness error (exit 2) when an entry is missing

// ------------------------------------------------------------------------------------------ PRNG
struct Rng
  {
  uint64_t s[4];
  static uint64_t splitmix(uint64_t & x) { uint64_t z = (x += 0x9e3779b97f4a7c15ull); z = (z ^ (z >> 30)) * 0xbf58476d1ce4e5b9ull; z = (z ^ (z >> 27)) * 0x94d049bb133111ebull; return z ^ (z >> 31); }
  void seed(uint64_t seed, uint64_t stream) { uint64_t x = seed * 0x2545F4914F6CDD1Dull + stream * 0x9E3779B97F4A7C15ull + 0x1234567; for(auto & v : s) v = splitmix(x); }
  static uint64_t rotl(uint64_t x, int k) { return (x << k) | (x >> (64 - k)); }
  uint64_t next() { uint64_t r = rotl(s[1] * 5, 7) * 9, t = s[1] << 17; s[2] ^= s[0]; s[3] ^= s[1]; s[1] ^= s[2]; s[0] ^= s[3]; s[2] ^= t; s[3] = rotl(s[3], 45); return r; }
  uint64_t below(uint64_t n) { return n ? (uint64_t)(((u128)next() * n) >> 64) : 0; }
  int64_t range(int64_t lo, int64_t hi) { return lo + (int64_t)below((uint64_t)(hi - lo) + 1); } // inclusive, hi-lo < 2^64-1
  // log-uniform magnitude: bit length uniform in [1,maxbits], random mantissa, random sign; result is finite raw
  int64_t logu(int maxbits = 63)
    {
    int bits = 1 + (int)below((uint64_t)maxbits);
    uint64_t m = next();
    uint64_t v = bits >= 64 ? m : ((m & ((1ull << bits) - 1)) | (1ull << (bits - 1)));
    if(v > (uint64_t)RAW_MAX) v = (uint64_t)RAW_MAX;
    int64_t r = (int64_t)v;
    return (next() & 1) ? -r : r;
    }
  int64_t logu_pos(int maxbits = 63) { int64_t r = logu(maxbits); return r < 0 ? -r : r; }
  int64_t finite() { for(;;) { int64_t r = (int64_t)next(); if(model_finite(r)) return r; } }
  };

inline uint64_t mix64(uint64_t x) { x ^= x >> 33; x *= 0xff51afd7ed558ccdull; x ^= x >> 33; x *= 0xc4ceb9fe1a85ec53ull; x ^= x >> 33; return x; }
inline uint64_t hash3(uint64_t tag, int64_t a, int64_t b, int64_t c = 0) { return mix64(mix64(mix64(tag * 0x9E3779B97F4A7C15ull + (uint64_t)a) + (uint64_t)b) + (uint64_t)c); }
inline uint64_t strhash(const char * s) { uint64_t h = 1469598103934665603ull; while(*s) { h ^= (unsigned char)*s++; h *= 1099511628211ull; } return h; }

// ------------------------------------------------------------------------------------------ statistics
struct Violation
  {
  std::string key, check, cfg;
  int64_t a = 0, b = 0, c = 0;
  std::string observed, expected;
  };
struct VioClass { uint64_t count = 0; std::vector<Violation> wit; std::map<std::string, uint64_t> per_cfg; };

struct Stats
  {
  uint64_t evaluations = 0; // library calls judged
  uint64_t cases = 0;       // generated input tuples
  uint64_t signals = 0;
  std::map<std::string, uint64_t> strata;
  std::map<std::string, VioClass> vio;
  std::unordered_set<uint64_t> nontrivial;
  uint64_t nontrivial_overflow = 0; // non-trivial cases seen after the set reached its cap (not counted as distinct)
  std::map<std::string, std::pair<long double, std::string>> maxima; // name -> (value, where)
  std::vector<std::string> samples; // json objects
  std::map<std::string, uint64_t> per_check; // judge invocations per named check
  void merge(const Stats & o);
  };

struct Ctx;
typedef void (*judge_fn)(Ctx &, int64_t, int64_t, int64_t);
struct Check { const char * name; judge_fn judge; const char * doc; bool fp_env = false; /* result legitimately depends on the floating-point rounding mode: skipped in the directed-rounding passes */ };

struct Property
  {
  const char * id;
  void (*init)();                 // resolve Fn handles
  void (*run)(Ctx &);             // workload for one shard
  std::vector<Check> checks;      // named judges (also used by --replay)
  std::vector<const char *> required_strata; // a run that misses one is inconclusive
  const char * nontrivial_rule;
  std::vector<const char *> exhaustive_quick, exhaustive_thorough; // finite sub-domains enumerated completely
  };
extern std::vector<Property *> & registry();
struct Registrar { Registrar(Property * p) { registry().push_back(p); } };

struct CallRes { int64_t v; int sig; };

struct Ctx
  {
  int shard = 0, nshards = 1;
  bool thorough = false;
  uint64_t seed = 1;
  double scale = 1.0; // workload multiplier (VERIF_SCALE), default 1
  Rng rng;
  Stats st;
  const Property * prop = nullptr;
  const char * cur_check = "";
  size_t nontrivial_cap = 1u << 17; // per shard (quick); thorough raises it to 2^21
  bool sampling = false;
  // differential replay of other properties' workloads (C08): every guarded call is reported to call_hook; verdicts of the
  // foreign judges are suppressed, only the hook may record violations
  void (*call_hook)(Ctx &, fn2, int64_t, int64_t, const CallRes &) = nullptr;
  bool suppress_foreign = false, in_hook = false;
  // floating-point environment pass: when non-zero every guarded library call runs under this rounding direction (the
  // judges and oracles themselves always run in round-to-nearest); index-sharded loops are thinned to 1/8
  int fe_mode = 0;
  std::vector<int64_t> cur_results; // return values of the library calls made while judging the sampled case

  uint64_t n(uint64_t quick, uint64_t thorough_n) const
    { double v = (double)(thorough ? thorough_n : quick) * scale; return v < 1 ? 1 : (uint64_t)v; }
  // share of a total count for this shard
  uint64_t share(uint64_t total) const { return total / nshards + ((uint64_t)shard < total % nshards ? 1 : 0); }
  bool mine(uint64_t index) const
    {
    if(fe_mode && (mix64(index * 0x9E3779B97F4A7C15ull + (uint64_t)fe_mode) & 7)) return false;
    return (index % (uint64_t)nshards) == (uint64_t)shard;
    }

  CallRes call(fn2 f, int64_t a, int64_t b);
  void stratum(const char * s, uint64_t k = 1) { st.strata[s] += k; }
  void nontrivial(uint64_t h)
    {
    if(st.nontrivial.size() < nontrivial_cap) st.nontrivial.insert(h);
    else ++st.nontrivial_overflow;
    }
  void maxi(const char * name, long double v, const char * check, int64_t a, int64_t b = 0);
  void sample(const char * check, int64_t a, int64_t b, int64_t c, const char * cfg, int64_t observed, const char * note);
  void violation(const std::string & key, int cfg_index, int64_t a, int64_t b, int64_t c, const std::string & observed, const std::string & expected);
  void signal_event(int cfg_index, const char * entry, int64_t a, int64_t b, int sig);
  void run_check(const Check & ck, int64_t a, int64_t b = 0, int64_t c = 0)
    {
    if(fe_mode && ck.fp_env) return;
    cur_check = ck.name; uint64_t k = ++st.per_check[ck.name]; ++st.cases;
    sampling = st.samples.size() < 16 && (k == 1 || (hash3(77, a, b, c) & 0xffff) == 0);
    if(sampling) { cur_results.clear(); uint64_t v0 = vio_total(); ck.judge(*this, a, b, c); record_sample(ck.name, a, b, c, vio_total() != v0); sampling = false; }
    else ck.judge(*this, a, b, c);
    }
  uint64_t vio_total() const { uint64_t t = 0; for(auto & v : st.vio) t += v.second.count; return t; }
  void record_sample(const char * check, int64_t a, int64_t b, int64_t c, bool violated);
  };

std::string i2s(int64_t v);
std::string i128s(i128 v);
std::string ld2s(long double v);
std::string hexraw(int64_t v);
std::string jesc(const std::string & s);

// ------------------------------------------------------------------------------------------ lattice
// Boundary lattice B of DESIGN 4.1 (finite raws only unless with_nan)
const std::vector<int64_t> & lattice();
const std::vector<int64_t> & lattice_small(); // ~120 value subset for triple products
std::vector<int64_t> lattice_with(std::initializer_list<int64_t> extra);

inline int64_t clamp_finite(i128 v) { if(v > RAW_MAX) return RAW_MAX; if(v < RAW_LOWEST) return RAW_LOWEST; return (int64_t)v; }

// integer type descriptors for the eight integral operand types
struct IntType { const char * tag; bool is_signed; int bits; i128 lo, hi; };
static const int N_INT = 10; // int8..int64, uint8..uint64, long long, unsigned long long
extern const IntType INT_TYPES[N_INT];
// value of the wrapper argument interpreted as type t (what static_cast<T>(int64) yields), as exact integer
inline i128 int_value(const IntType & t, int64_t x)
  {
  if(t.bits == 64) return t.is_signed ? (i128)x : (i128)(uint64_t)x;
  uint64_t m = (1ull << t.bits) - 1, u = (uint64_t)x & m;
  if(t.is_signed && (u >> (t.bits - 1))) return (i128)u - ((i128)1 << t.bits);
  return (i128)u;
  }
int64_t random_of_type(Rng & r, const IntType & t); // boundary-heavy value of the type, as wrapper argument

// judges shared between C02/C03 and C16 (literal integer operand at the call site), defined in props_arith.cc
void judge_mul_const(Ctx & c, int64_t a, int64_t which, int64_t);
void judge_div_const(Ctx & c, int64_t a, int64_t which, int64_t);
size_t const_scalar_count();
// stateful shapes (props_diff.cc): index 0..7 = add/sub/mul/div (right, left operand modified), 8.. = unary shapes
void judge_reassign(Ctx & c, int64_t a, int64_t b, int64_t which);
size_t reassign_count();
void reassign_setup();
i128 const_scalar_value(size_t which);

// floating helpers
inline double bits2d(int64_t b) { double d; memcpy(&d, &b, 8); return d; }
inline int64_t d2bits(double d) { int64_t b; memcpy(&b, &d, 8); return b; }
inline float bits2f(int64_t b) { uint32_t u = (uint32_t)(uint64_t)b; float f; memcpy(&f, &u, 4); return f; }
inline int64_t f2bits(float f) { uint32_t u; memcpy(&u, &f, 4); return (int64_t)u; }
inline long double raw2ld(int64_t raw) { return (long double)raw / 65536.0L; }

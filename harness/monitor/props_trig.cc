// C09 sin/cos, C10 tan, C11 atan/atan2, C12 asin/acos
// References: glibc x87 long double sinl/cosl/tanl/atanl/atan2l/asinl, bound + 2^-40 slack (DESIGN 4.2)
#include "core.h"
#include <cfenv>

namespace
{
inline long double f9(long double r) { long double p = r * r * r; p = p * p * p; return p / 362880.0L; }
#define CALLG(var, fn, x, y) CallRes var = c.call(fn.f[ci], x, y); if(var.sig) { c.signal_event((int)ci, fn.entry.c_str(), x, y, var.sig); continue; }

// ============================================================================================ C09
Fn SIN, COS;
void j_sincos_acc(Ctx & c, int64_t x, int64_t, int64_t)
  {
  if(x < -411774 || x > 411774) return;
  long double xv = raw2ld(x), s = sinl(xv), co = cosl(xv);
  long double bs = 4 * ULP + f9(fabsl(asinl(s))) + SLACK, bc = 4 * ULP + f9(fabsl(asinl(co))) + SLACK;
  c.stratum("accuracy-domain");
  // few admissible results: the bound interval holds fewer than 9 representable values everywhere (bound <= 4ulp + small near 0)
  if(bs < 5 * ULP || bc < 5 * ULP || x % PHI2 == 0 || sabs(x) > 411700) c.nontrivial(hash3(9, x, 0));
  for(size_t ci = 0; ci < g_cfgs.size(); ++ci)
    {
    CALLG(a, SIN, x, 0) CALLG(b, COS, x, 0)
    long double es = fabsl(raw2ld(a.v) - s), ec = fabsl(raw2ld(b.v) - co);
    c.maxi("sin_err/bound", es / bs, "sin", x); c.maxi("cos_err/bound", ec / bc, "cos", x);
    if(model_isnan(a.v) || es > bs) c.violation("sin/|x|<=2pi/error-beyond-bound", (int)ci, x, 0, 0, i2s(a.v), ld2s(s * 65536) + " +-" + ld2s(bs * 65536));
    if(model_isnan(b.v) || ec > bc) c.violation("cos/|x|<=2pi/error-beyond-bound", (int)ci, x, 0, 0, i2s(b.v), ld2s(co * 65536) + " +-" + ld2s(bc * 65536));
    }
  }
void j_sincos_range(Ctx & c, int64_t x, int64_t, int64_t)
  {
  if(!model_finite(x)) return;
  c.stratum("range-clause"); if(sabs(x) > (1ll << 40)) c.stratum("range-large-argument");
  if(sabs(x) > (1ll << 62)) c.nontrivial(hash3(91, x, 0));
  for(size_t ci = 0; ci < g_cfgs.size(); ++ci)
    {
    CALLG(a, SIN, x, 0) CALLG(b, COS, x, 0)
    c.maxi("max_abs_sin_raw", (long double)sabs(a.v), "sin", x); c.maxi("max_abs_cos_raw", (long double)sabs(b.v), "cos", x);
    const char * cls = sabs(x) >= RAW_MAX - 3 * PHI ? "/near-limits" : "";
    if(a.v < -65536 || a.v > 65536) c.violation(std::string("sin/outside-[-1,1]") + cls, (int)ci, x, 0, 0, i2s(a.v), "[-65536,65536]");
    if(b.v < -65536 || b.v > 65536) c.violation(std::string("cos/outside-[-1,1]") + cls, (int)ci, x, 0, 0, i2s(b.v), "[-65536,65536]");
    }
  }
void j_sincos_period(Ctx & c, int64_t x, int64_t k, int64_t)
  {
  i128 y = (i128)x + (i128)k * TWO_PHI; const i128 LIM = (i128)1 << 62;
  if(x >= LIM || x <= -LIM || y >= LIM || y <= -LIM || k == 0) return;
  c.stratum("periodicity"); if((x < 0) != (y < 0)) c.stratum("period-across-zero");
  if((x < 0) != (y < 0) || sabs(k) > 1000000) c.nontrivial(hash3(92, x, k));
  for(size_t ci = 0; ci < g_cfgs.size(); ++ci)
    {
    CALLG(a, SIN, x, 0) CALLG(a2, SIN, (int64_t)y, 0) CALLG(b, COS, x, 0) CALLG(b2, COS, (int64_t)y, 0)
    if(a.v != a2.v) c.violation("sin/not-periodic", (int)ci, x, k, 0, i2s(a2.v), i2s(a.v));
    if(b.v != b2.v) c.violation("cos/not-periodic", (int)ci, x, k, 0, i2s(b2.v), i2s(b.v));
    }
  }
void c09_init() { SIN = resolve("sin"); COS = resolve("cos"); }
extern Property P_C09;
void c09_run(Ctx & c)
  {
  const Check & ACC = P_C09.checks[0], & RNG = P_C09.checks[1], & PER = P_C09.checks[2];
  for(int64_t x = -411774 + c.shard; x <= 411774; x += c.nshards) c.run_check(ACC, x);
  uint64_t idx = 0;
  for(int64_t x : lattice()) if(c.mine(idx++)) c.run_check(RNG, x);
  for(int64_t x = -411774 + c.shard; x <= 411774; x += c.nshards) c.run_check(RNG, x);
  uint64_t n = c.share(c.n(400000, 40000000));
  for(uint64_t i = 0; i < n; ++i) c.run_check(RNG, (i & 3) ? c.rng.logu() : c.rng.finite());
  // periodicity: every raw x in one period (quick: stride 3) x fixed k set; random (x,k)
  const int64_t KS[] = { 1, -1, 2, -2, 3, -3, 7, -7, 1000, -1000 };
  int64_t step = c.thorough ? 1 : 5;
  for(int64_t x = -PHI2 + c.shard * step; x <= 3 * PHI2 + 2; x += c.nshards * step) for(int64_t k : KS) c.run_check(PER, x, k);
  n = c.share(c.n(300000, 60000000));
  const int64_t KMAX = (int64_t)(((i128)1 << 62) / TWO_PHI);
  for(uint64_t i = 0; i < n; ++i)
    {
    int64_t x, k;
    switch(c.rng.below(4))
      {
      case 0: x = c.rng.logu(62); k = c.rng.range(-KMAX, KMAX); break;
      case 1: x = c.rng.range(-TWO_PHI, TWO_PHI); k = (c.rng.next() & 1) ? KMAX - (int64_t)c.rng.below(3) : -(KMAX - (int64_t)c.rng.below(3)); break; // largest admissible |k|
      case 2: { int64_t m = c.rng.logu(40); x = m * TWO_PHI + c.rng.range(-3, 3); k = -m + c.rng.range(-2, 2); break; } // just round multiples of 2phi, crossing zero
      default: x = c.rng.logu(50); k = c.rng.logu(30);
      }
    c.run_check(PER, x, k);
    }
  // quotient boundaries of the range reduction over the WHOLE admissible range (round 11, C09-x1: a reciprocal-multiplication
  // reduction one bit short fails just below multiples of the period, and only for |x| > 0.8*2^62): x = m*2phi + d, |d| <= 3,
  // m uniform up to the largest admissible multiple (half of the mass in the top quarter), compared with its image next to zero
  n = c.share(c.n(1600000, 200000000));
  for(uint64_t i = 0; i < n; ++i)
    {
    int64_t m = (i & 1) ? c.rng.range(KMAX - KMAX / 4, KMAX - 1) : c.rng.range(1, KMAX - 1);
    if(i & 2) m = -m;
    int64_t x = (int64_t)((i128)m * TWO_PHI) + c.rng.range(-3, 3);
    c.run_check(PER, x, -m + c.rng.range(-1, 1));
    }
  // the library is integer arithmetic: its results must not depend on the floating-point environment. The exact clauses
  // (range, periodicity) are re-run under the three directed rounding modes (thread-local); the judges use integers only.
  for(int mode : { FE_DOWNWARD, FE_UPWARD, FE_TOWARDZERO })
    {
    std::fesetround(mode);
    uint64_t m = c.share(c.n(60000, 6000000));
    for(uint64_t i = 0; i < m; ++i)
      {
      int64_t x = (i & 1) ? c.rng.logu(62) : c.rng.range(-TWO_PHI, TWO_PHI), k = (i & 2) ? c.rng.range(-KMAX, KMAX) : c.rng.logu(30);
      c.run_check(PER, x, k); c.run_check(RNG, x); c.stratum("directed-rounding-mode");
      }
    std::fesetround(FE_TONEAREST);
    }
  }
Property P_C09 = { "C09", c09_init, c09_run,
  { { "sincos_acc", j_sincos_acc, "|sin(x)-sin x| <= 4ulp + r^9/9!, same for cos; a = raw x in [-411774,411774]" },
    { "sincos_range", j_sincos_range, "sin(x), cos(x) in [-1,1] for any finite x; a = raw" },
    { "sincos_period", j_sincos_period, "sin(x+k*2phi)==sin(x), cos likewise, |x|,|x+k*2phi| < 2^62 raw; a = raw x, b = k" } },
  { "accuracy-domain", "range-clause", "range-large-argument", "periodicity", "period-across-zero", "directed-rounding-mode" },
  "accuracy: bound below 5 ulp (fewer than 11 admissible results), multiples of the pi/2 constant, domain edge; range: |x| > 2^62; period: x and x+k*2phi of opposite sign or |k| > 10^6; distinct by (x,k)",
  { "every raw x in [-411774,411774] (accuracy, range)", "every 5th raw x of one period x 10 values of k" }, { "every raw x in [-411774,411774] (accuracy, range)", "every raw x of one period x 10 values of k" } };
Registrar R_C09(&P_C09);

// ============================================================================================ C10
Fn TAN;
inline bool is_pole(int64_t x) { i128 ax = x < 0 ? -(i128)x : (i128)x; return (int64_t)(ax % PHI) == PHI2; }
void j_tan_acc(Ctx & c, int64_t x, int64_t, int64_t)
  {
  if(x < -PHI || x > PHI || is_pole(x)) return;
  long double t = tanl(raw2ld(x)), bound = 2.5L * ULP * (1 + t * t) + SLACK;
  int64_t ax = sabs(x);
  c.stratum(ax <= 51472 ? "tan-series-branch" : (ax <= PHI2 ? "tan-reciprocal-branch" : "tan-beyond-pi/2"));
  if(sabs(ax - PHI2) < 2000 || ax > PHI2 || sabs(ax - 51472) < 3) c.nontrivial(hash3(10, x, 0));
  for(size_t ci = 0; ci < g_cfgs.size(); ++ci)
    {
    CALLG(r, TAN, x, 0)
    long double e = fabsl(raw2ld(r.v) - t);
    if(!model_isnan(r.v)) c.maxi(ax > PHI2 ? "tan_err/bound(pi/2,pi]" : "tan_err/bound[0,pi/2)", e / bound, "tan", x);
    if(model_isnan(r.v) || e > bound) c.violation(std::string("tan/") + (ax > PHI2 ? "pi/2<|x|<=pi" : "|x|<pi/2") + "/error-beyond-bound", (int)ci, x, 0, 0, i2s(r.v), ld2s(t * 65536) + " +-" + ld2s(bound * 65536));
    }
  }
void j_tan_sym(Ctx & c, int64_t x, int64_t k, int64_t)
  {
  const i128 LIM = (i128)1 << 62;
  if(x >= LIM || x <= -LIM) return;
  bool pole = is_pole(x);
  c.stratum(pole ? "tan-pole" : "tan-non-pole"); if(pole || sabs(x) > (1ll << 50)) c.nontrivial(hash3(101, x, k));
  for(size_t ci = 0; ci < g_cfgs.size(); ++ci)
    {
    CALLG(r, TAN, x, 0) CALLG(rn, TAN, -x, 0)
    if(model_isnan(r.v) != pole) c.violation(std::string("tan/") + (pole ? "pole/not-nan" : "non-pole/nan"), (int)ci, x, k, 0, i2s(r.v), pole ? "NaN" : "value");
    if(!(model_isnan(r.v) && model_isnan(rn.v)) && rn.v != -r.v) c.violation("tan/not-odd", (int)ci, x, k, 0, i2s(rn.v), i2s(-r.v));
    i128 y = (i128)x + (i128)k * PHI;
    if(x >= 0 && k > 0 && y < LIM)
      {
      c.stratum("tan-period");
      CALLG(r2, TAN, (int64_t)y, 0)
      if(r2.v != r.v) c.violation("tan/not-periodic", (int)ci, x, k, 0, i2s(r2.v), i2s(r.v));
      }
    }
  }
void c10_init() { TAN = resolve("tan"); }
extern Property P_C10;
void c10_run(Ctx & c)
  {
  const Check & ACC = P_C10.checks[0], & SYM = P_C10.checks[1];
  for(int64_t x = -PHI + c.shard; x <= PHI; x += c.nshards) c.run_check(ACC, x);
  const int64_t KS[] = { 1, 2, 3, 5, 1000 };
  int64_t step = c.thorough ? 1 : 3;
  for(int64_t x = c.shard * step; x <= PHI + 2; x += c.nshards * step) for(int64_t k : KS) { c.run_check(SYM, x, k); }
  for(int64_t x = -PHI + c.shard; x < 0; x += c.nshards) c.run_check(SYM, x, 0);
  uint64_t idx = 0;
  for(int64_t x : lattice()) if(c.mine(idx++)) c.run_check(SYM, x, 1);
  uint64_t n = c.share(c.n(400000, 60000000));
  const int64_t KMAX = (int64_t)(((i128)1 << 62) / PHI);
  for(uint64_t i = 0; i < n; ++i)
    {
    int64_t x, k;
    switch(c.rng.below(4))
      {
      case 0: x = c.rng.logu(62); k = c.rng.range(0, 1000); break;
      case 1: { int64_t m = c.rng.logu_pos(44); x = m * PHI + PHI2 + c.rng.range(-2, 2); if(c.rng.next() & 1) x = -x; k = c.rng.range(0, 5); break; } // at and round poles
      case 2: x = c.rng.range(0, PHI); k = c.rng.range(0, KMAX - 1); break;
      default: x = c.rng.logu_pos(50); k = c.rng.logu_pos(30);
      }
    c.run_check(SYM, x, k);
    }
  // quotient boundaries of the reduction over the whole admissible range (see C09, round 11): y = m*phi + d, -4 <= d <= 3
  n = c.share(c.n(800000, 100000000));
  for(uint64_t i = 0; i < n; ++i)
    {
    int64_t m = (i & 1) ? c.rng.range(KMAX - KMAX / 4, KMAX - 1) : c.rng.range(1, KMAX - 1), d = c.rng.range(-4, 3);
    if(d < 0) c.run_check(SYM, PHI + d, m - 1); else c.run_check(SYM, d, m);
    }
  for(int mode : { FE_DOWNWARD, FE_UPWARD, FE_TOWARDZERO })
    { // see C09: exact clauses under directed rounding modes
    std::fesetround(mode);
    uint64_t m = c.share(c.n(60000, 6000000));
    for(uint64_t i = 0; i < m; ++i) { int64_t x = (i & 1) ? c.rng.logu(62) : c.rng.range(0, PHI); c.run_check(SYM, x, (i & 2) ? c.rng.range(0, 1000) : c.rng.logu_pos(30)); c.stratum("directed-rounding-mode"); }
    std::fesetround(FE_TONEAREST);
    }
  }
Property P_C10 = { "C10", c10_init, c10_run,
  { { "tan_acc", j_tan_acc, "|tan(x)-tan x| <= 2.5ulp(1+tan^2 x) for |x| <= pi, x not a pole; a = raw x in [-205887,205887]" },
    { "tan_sym", j_tan_sym, "tan(-x)==-tan(x); isnan(tan(x)) iff |x| mod phi == pi/2 constant; tan(x+k*phi)==tan(x) for x,k>=0; a = raw x (|x| < 2^62), b = k" } },
  { "tan-series-branch", "tan-reciprocal-branch", "tan-beyond-pi/2", "tan-pole", "tan-non-pole", "tan-period", "directed-rounding-mode" },
  "accuracy: within 2000 raw of the pole, beyond pi/2, at the pi/4 branch point; symmetry/pole: pole arguments or |x| > 2^50; distinct by (x,k)",
  { "every raw x in [-205887,205887] (accuracy, oddness)", "every 3rd raw x in [0,phi] x 5 values of k" }, { "every raw x in [-205887,205887] (accuracy, oddness)", "every raw x in [0,phi] x 5 values of k" } };
Registrar R_C10(&P_C10);

// ============================================================================================ C11
Fn ATAN, ATAN2;
const int64_t ATAN_FRONTIER = 57738456761160ll; // x*159744 leaves int64 beyond this raw value
const char * atan_class(int64_t ax) { return ax > ATAN_FRONTIER ? "|x|>8.81e8" : "|x|<=8.81e8"; }
void j_atan(Ctx & c, int64_t x, int64_t, int64_t)
  {
  int64_t ax = sabs(x);
  if(ax >= (1ll << 47)) return;
  long double t = atanl(raw2ld(x));
  c.stratum(ax < 28672 ? "atan-seg0" : ax < 45056 ? "atan-seg1" : ax < 77824 ? "atan-seg2" : ax < 159744 ? "atan-seg3" : (ax > ATAN_FRONTIER ? "atan-beyond-mul-frontier" : "atan-seg4"));
  for(int64_t b : { (int64_t)28672, (int64_t)45056, (int64_t)77824, (int64_t)159744, ATAN_FRONTIER }) if(sabs(ax - b) <= 64) c.nontrivial(hash3(11, x, 0));
  if(ax > (1ll << 36)) c.nontrivial(hash3(11, x, 0));
  for(size_t ci = 0; ci < g_cfgs.size(); ++ci)
    {
    CALLG(r, ATAN, x, 0) CALLG(rn, ATAN, -x, 0)
    long double e = fabsl(raw2ld(r.v) - t);
    if(!model_isnan(r.v)) c.maxi(ax > ATAN_FRONTIER ? "atan_abs_err(|x|>8.81e8)" : "atan_abs_err", e, "atan", x);
    if(model_isnan(r.v) || e > 5e-5L + SLACK) c.violation(std::string("atan/") + atan_class(ax) + "/error>5e-5", (int)ci, x, 0, 0, i2s(r.v), ld2s(t * 65536));
    if(rn.v != -r.v) c.violation(std::string("atan/") + atan_class(ax) + "/not-odd", (int)ci, x, 0, 0, i2s(rn.v), i2s(-r.v));
    if(r.v > PHI2 || r.v < -PHI2) c.violation(std::string("atan/") + atan_class(ax) + "/exceeds-pi/2", (int)ci, x, 0, 0, i2s(r.v), "|r| <= 102944");
    }
  }
void j_atan_mono(Ctx & c, int64_t x, int64_t y, int64_t)
  {
  if(x > y || sabs(x) >= (1ll << 47) || sabs(y) >= (1ll << 47)) return;
  c.stratum("atan-monotone-pair");
  for(size_t ci = 0; ci < g_cfgs.size(); ++ci)
    {
    CALLG(a, ATAN, x, 0) CALLG(b, ATAN, y, 0)
    if(a.v > b.v) c.maxi("atan_max_decrease_raw", (long double)(a.v - b.v), "atan_mono", x, y);
    if(a.v > b.v + 2) c.violation(std::string("atan/") + atan_class(std::max(sabs(x), sabs(y))) + "/decreases-by-more-than-2ulp", (int)ci, x, y, 0, i2s(a.v) + " > " + i2s(b.v) + "+2", "atan(x) <= atan(y)+2");
    }
  }
void j_atan2(Ctx & c, int64_t y, int64_t x, int64_t)
  {
  if(sabs(x) >= (1ll << 47) || sabs(y) >= (1ll << 47)) return;
  for(size_t ci = 0; ci < g_cfgs.size(); ++ci)
    {
    CALLG(r, ATAN2, y, x)
    if(x == 0 && y == 0) { c.stratum("atan2-origin"); c.nontrivial(hash3(112, y, x)); if(!model_isnan(r.v)) c.violation("atan2/origin/not-nan", (int)ci, y, x, 0, i2s(r.v), "NaN"); continue; }
    if(x == 0) { c.stratum("atan2-x=0"); c.nontrivial(hash3(112, y, x)); int64_t e = y > 0 ? PHI2 : -PHI2; if(r.v != e) c.violation("atan2/x=0/wrong-axis-value", (int)ci, y, x, 0, i2s(r.v), i2s(e)); continue; }
    if(y == 0) { c.stratum("atan2-y=0"); c.nontrivial(hash3(112, y, x)); int64_t e = x > 0 ? 0 : PHI; if(r.v != e) c.violation("atan2/y=0/wrong-axis-value", (int)ci, y, x, 0, i2s(r.v), i2s(e)); continue; }
    c.stratum(x > 0 ? (y > 0 ? "atan2-q1" : "atan2-q4") : (y > 0 ? "atan2-q2" : "atan2-q3"));
    // the library divides y/x first: the quotient magnitude decides which atan branch runs
    long double ratio = fabsl((long double)y / (long double)x);
    bool beyond = ratio * 65536.0L > (long double)ATAN_FRONTIER, lossy = sabs(y) >= (1ll << 47);
    if(beyond) { c.stratum("atan2-ratio-beyond-mul-frontier"); c.nontrivial(hash3(112, y, x)); }
    if(ratio < 1e-9L || ratio > 1e4L) c.nontrivial(hash3(112, y, x));
    (void)lossy;
    long double t = atan2l((long double)y, (long double)x);
    long double e = fabsl(raw2ld(r.v) - t);
    const char * cls = beyond ? "|y/x|>8.81e8" : "|y/x|<=8.81e8";
    if(!model_isnan(r.v)) c.maxi(beyond ? "atan2_abs_err(|y/x|>8.81e8)" : "atan2_abs_err", e, "atan2", y, x);
    if(model_isnan(r.v) || e > 8e-5L + SLACK) c.violation(std::string("atan2/") + cls + "/error>8e-5", (int)ci, y, x, 0, i2s(r.v), ld2s(t * 65536));
    if((y > 0 && r.v < 0) || (y < 0 && r.v > 0)) c.violation(std::string("atan2/") + cls + "/wrong-sign", (int)ci, y, x, 0, i2s(r.v), y > 0 ? ">= 0" : "<= 0");
    }
  }
void c11_init() { ATAN = resolve("atan"); ATAN2 = resolve("atan2"); }
extern Property P_C11;
void c11_run(Ctx & c)
  {
  const Check & AT = P_C11.checks[0], & MONO = P_C11.checks[1], & A2 = P_C11.checks[2];
  int64_t W = c.thorough ? (1ll << 26) : (1ll << 21);
  // contiguous block per shard so that the running maximum is meaningful; ascending order
  {
  int64_t lo = -W + (2 * W + 1) * c.shard / c.nshards, hi = -W + (2 * W + 1) * (c.shard + 1) / c.nshards;
  Fn & f = ATAN; int64_t argmax = lo; int64_t vmax = INT64_MIN;
  for(int64_t x = lo; x < hi; ++x)
    {
    c.run_check(AT, x);
    int64_t v = c.call(f.f[0], x, 0).v; // configuration 0 tracks the running maximum; the pair is then judged in every configuration
    if(vmax != INT64_MIN && v < vmax) c.run_check(MONO, argmax, x);
    if(v >= vmax) { vmax = v; argmax = x; }
    if((x & 1023) == 0 && x > lo) c.run_check(MONO, x - 1, x);
    }
  if(c.shard + 1 < c.nshards) c.run_check(MONO, argmax, hi);
  }
  // windows round the five segment boundaries, the mul_ frontier and the domain edge
  uint64_t idx = 0;
  for(int64_t b : { (int64_t)28672, (int64_t)45056, (int64_t)77824, (int64_t)159744, ATAN_FRONTIER, (int64_t)((1ll << 47) - 4097), (int64_t)(1ll << 36), (int64_t)(1ll << 32) })
    for(int64_t d = -4096; d <= 4096; ++d) if(c.mine(idx++)) { c.run_check(AT, b + d); c.run_check(AT, -(b + d)); c.run_check(MONO, b + d - 1, b + d); }
  for(int64_t x : lattice()) if(c.mine(idx++)) c.run_check(AT, x);
  // log-uniform up to 2^47, sorted per shard for a global running maximum
  {
  uint64_t n = c.share(c.n(600000, 60000000));
  std::vector<int64_t> xs; xs.reserve((size_t)n);
  for(uint64_t i = 0; i < n; ++i) xs.push_back(c.rng.logu(47));
  std::sort(xs.begin(), xs.end());
  int64_t argmax = 0, vmax = INT64_MIN;
  for(int64_t x : xs)
    {
    if(sabs(x) >= (1ll << 47)) continue;
    c.run_check(AT, x);
    int64_t v = c.call(ATAN.f[0], x, 0).v;
    if(vmax != INT64_MIN && v < vmax) c.run_check(MONO, argmax, x);
    if(v >= vmax) { vmax = v; argmax = x; }
    }
  }
  // atan2
  const auto & L = lattice();
  idx = 0;
  for(int64_t y : L) for(int64_t x : L) if(c.mine(idx++)) c.run_check(A2, y, x);
  uint64_t n = c.share(c.n(500000, 50000000));
  for(uint64_t i = 0; i < n; ++i)
    {
    int64_t y, x;
    switch(c.rng.below(6))
      {
      case 0: y = c.rng.logu(47); x = c.rng.logu(47); break;
      case 1: y = c.rng.logu(47); x = c.rng.range(-3, 3); break;            // huge ratios, x = 0 axis
      case 2: y = c.rng.range(-3, 3); x = c.rng.logu(47); break;            // tiny ratios, y = 0 axis
      case 3: { x = c.rng.logu(30); y = clamp_finite((i128)x * (ATAN_FRONTIER / 65536) + c.rng.range(-70000, 70000)); if(sabs(y) >= (1ll << 47)) y = c.rng.logu(47); break; } // ratio near the frontier
      case 4: y = c.rng.logu(20); x = c.rng.logu(20); break;
      default: { x = c.rng.logu(40); y = x + c.rng.range(-2, 2); if(c.rng.next() & 1) y = -y; }
      }
    if(sabs(x) >= (1ll << 47) || sabs(y) >= (1ll << 47)) continue;
    c.run_check(A2, y, x);
    }
  }
Property P_C11 = { "C11", c11_init, c11_run,
  { { "atan", j_atan, "|atan(x)-atan x| <= 5e-5, atan(-x)==-atan(x), |atan(x)| <= pi/2 constant; a = raw x, |x| < 2^47" },
    { "atan_mono", j_atan_mono, "x <= y => atan(x) <= atan(y) + 2ulp; a = x, b = y" },
    { "atan2", j_atan2, "error <= 8e-5, sign, axis values, NaN at origin; a = raw y, b = raw x" } },
  { "atan-seg0", "atan-seg1", "atan-seg2", "atan-seg3", "atan-seg4", "atan-beyond-mul-frontier", "atan-monotone-pair", "atan2-origin", "atan2-x=0", "atan2-y=0", "atan2-q1", "atan2-q2", "atan2-q3", "atan2-q4", "atan2-ratio-beyond-mul-frontier" },
  "atan: within 64 raw of a segment boundary or of the x*c overflow frontier, or |x| > 2^36 raw; atan2: axis/origin cases, |y/x| < 1e-9 or > 1e4; distinct by arguments",
  { "every raw x with |x| <= 2^21 (accuracy, oddness, bound, running-maximum monotonicity)" }, { "every raw x with |x| <= 2^26 (accuracy, oddness, bound, running-maximum monotonicity)" } };
Registrar R_C11(&P_C11);

// ============================================================================================ C12
Fn ASIN, ACOS;
void j_asin_dom(Ctx & c, int64_t x, int64_t, int64_t)
  {
  if((x >= -65536 && x <= 65536) || x == INT64_MIN) return;
  c.stratum("asin-outside-domain"); if(sabs(x) < 65536 + 16 || model_isnan(x)) c.nontrivial(hash3(12, x, 0));
  for(size_t ci = 0; ci < g_cfgs.size(); ++ci)
    {
    CALLG(a, ASIN, x, 0) CALLG(b, ACOS, x, 0)
    if(!model_isnan(a.v)) c.violation("asin/|x|>1/not-nan", (int)ci, x, 0, 0, i2s(a.v), "NaN");
    if(!model_isnan(b.v)) c.violation("acos/|x|>1/not-nan", (int)ci, x, 0, 0, i2s(b.v), "NaN");
    }
  }
void j_asin_acc(Ctx & c, int64_t x, int64_t, int64_t)
  {
  if(x < -65536 || x > 65536) return;
  int64_t ax = sabs(x);
  c.stratum(ax <= 39321 ? "asin-series-branch" : "asin-sqrt-branch");
  if(ax > 65536 - 600 || sabs(ax - 39321) <= 2 || x == 0) c.nontrivial(hash3(121, x, 0));
  auto cl = [](int64_t v) { return v < -65536 ? (int64_t)-65536 : (v > 65536 ? (int64_t)65536 : v); };
  long double lo = asinl(raw2ld(cl(x - 2))) - 4 * ULP - SLACK, hi = asinl(raw2ld(cl(x + 2))) + 4 * ULP + SLACK;
  long double t = asinl(raw2ld(x));
  for(size_t ci = 0; ci < g_cfgs.size(); ++ci)
    {
    CALLG(a, ASIN, x, 0) CALLG(an, ASIN, -x, 0) CALLG(b, ACOS, x, 0)
    const char * alg = g_cfgs[ci].sqrt_algo == 1 ? "abacus" : "std";
    if(model_isnan(a.v)) { c.violation("asin/|x|<=1/nan", (int)ci, x, 0, 0, i2s(a.v), ld2s(t * 65536)); continue; }
    long double v = raw2ld(a.v);
    c.maxi(g_cfgs[ci].sqrt_algo == 1 ? "asin_err_ulp(abacus)" : "asin_err_ulp(std)", fabsl(v - t) * 65536, "asin", x);
    if(v < lo || v > hi) c.violation(std::string("asin/") + (ax <= 39321 ? "series" : "sqrt") + "-branch/" + alg + "/beyond-backward-forward-bound", (int)ci, x, 0, 0, i2s(a.v), "[" + ld2s(lo * 65536) + "," + ld2s(hi * 65536) + "]");
    if(an.v != -a.v) c.violation("asin/not-odd", (int)ci, x, 0, 0, i2s(an.v), i2s(-a.v));
    if(model_isnan(b.v) || sabs(b.v - (PHI2 - a.v)) > 1) c.violation("acos/differs-from-pi/2-asin", (int)ci, x, 0, 0, i2s(b.v), i2s(PHI2 - a.v) + "+-1");
    // "hence within 1 ulp of [0, pi]": pi = 205887.4 raw
    if(!model_isnan(b.v) && (b.v < -1 || b.v > 205888)) c.violation("acos/outside-[0,pi]-by-more-than-1ulp", (int)ci, x, 0, 0, i2s(b.v), "[-1, 205888]");
    }
  }
void j_asin_mono(Ctx & c, int64_t x, int64_t y, int64_t)
  {
  if(x > y || x < -65536 || y > 65536) return;
  c.stratum("asin-monotone-pair");
  for(size_t ci = 0; ci < g_cfgs.size(); ++ci)
    {
    CALLG(a, ASIN, x, 0) CALLG(b, ASIN, y, 0)
    if(a.v > b.v) c.violation(std::string("asin/decreases/") + (g_cfgs[ci].sqrt_algo == 1 ? "abacus" : "std"), (int)ci, x, y, 0, i2s(a.v) + " > " + i2s(b.v), "asin(x) <= asin(y)");
    }
  }
void c12_init() { ASIN = resolve("asin"); ACOS = resolve("acos"); }
extern Property P_C12;
void c12_run(Ctx & c)
  {
  const Check & DOM = P_C12.checks[0], & ACC = P_C12.checks[1], & MONO = P_C12.checks[2];
  for(int64_t x = -65536 + c.shard; x <= 65536; x += c.nshards) { c.run_check(ACC, x); if(x > -65536) c.run_check(MONO, x - 1, x); }
  // running maximum per configuration group: shard 0 sweeps the whole domain once for every configuration
  if(c.shard < (int)g_cfgs.size())
    {
    size_t ci = (size_t)c.shard; int64_t argmax = -65536, vmax = INT64_MIN;
    for(int64_t x = -65536; x <= 65536; ++x)
      {
      int64_t v = c.call(ASIN.f[ci], x, 0).v;
      if(vmax != INT64_MIN && v < vmax) c.run_check(MONO, argmax, x);
      if(v >= vmax) { vmax = v; argmax = x; }
      }
    }
  uint64_t idx = 0;
  for(int64_t x : lattice_with({ RAW_NAN, RAW_NNAN })) if(c.mine(idx++)) c.run_check(DOM, x);
  for(int64_t d = 1 + c.shard; d <= 70000; d += c.nshards) { c.run_check(DOM, 65536 + d); c.run_check(DOM, -65536 - d); }
  uint64_t n = c.share(c.n(400000, 40000000));
  for(uint64_t i = 0; i < n; ++i) c.run_check(DOM, (i & 3) ? c.rng.logu() : c.rng.finite());
  }
Property P_C12 = { "C12", c12_init, c12_run,
  { { "asin_dom", j_asin_dom, "asin, acos NaN for |x| > 1 (both sentinels included); a = raw" },
    { "asin_acc", j_asin_acc, "asin(x) in [asin(x-2ulp)-4ulp, asin(x+2ulp)+4ulp], oddness, |acos(x)-(pi/2-asin(x))| <= 1ulp; a = raw in [-65536,65536]" },
    { "asin_mono", j_asin_mono, "x <= y => asin(x) <= asin(y); a = x, b = y" } },
  { "asin-outside-domain", "asin-series-branch", "asin-sqrt-branch", "asin-monotone-pair" },
  "inside: |x| within 600 raw of 1 (ill-conditioned end), the 0.6 branch point, 0; outside: within 16 raw of +-1 or a NaN sentinel; distinct by x",
  { "every raw x in [-65536,65536] under every loaded configuration (both sqrt back-ends)" }, { "every raw x in [-65536,65536] under every loaded configuration (both sqrt back-ends)" } };
Registrar R_C12(&P_C12);
}

#!/usr/bin/env python3
"""Mutation smoke test of the checks (DESIGN section 8, step 2).

Each mutant is a small textual change to the library (written against the repaired tree). For every mutant:
apply to /repo, run the repository's own tests (a mutant the tests kill is not a valid seed and is reported as
such), run the quick check(s) of the property it targets, restore /repo. A valid mutant must make its check exit 1.

  tools_mutants.py [--only id,id] [--tier quick] [--skip-tests]      results: notes/mutants_result.json
"""
import sys, os, re, json, subprocess, argparse, time

REPO = '/repo'
VERIF = os.path.dirname(os.path.abspath(__file__))
MATH = 'fixed_lib/include/fixedmath/math.h'
TYPES = 'fixed_lib/include/fixedmath/types.h'
LIMITS = 'fixed_lib/include/fixedmath/limits.h'
COMMON = 'fixed_lib/include/fixedmath/detail/common.h'
SRC = 'fixed_lib/src/fixed_math.cc'
SINTAB = 'fixed_lib/src/sin_angle_table.h'

# id, properties expected to catch it, file, old, new, occurrence index (0 = must be unique)
M = [
 ('c01_drop_int64min_sub', ['C01'], MATH, """          return quiet_NaN_result();
        if( fixed_unlikely( result.v == std::numeric_limits<fixed_internal>::min() ) ) //one below lowest()
          return -quiet_NaN_result();
        }

      return result;""", """          return quiet_NaN_result();
        }

      return result;""", 0),
 ('c01_signed_add_again', ['C01', 'C07'], MATH, """      fixed_t result { fix_carrier_t{static_cast<fixed_internal>(
        static_cast<fixed_internal_unsigned>(lh.v) + static_cast<fixed_internal_unsigned>(rh.v) )} };""", """      fixed_t result { fix_carrier_t{lh.v + rh.v} };""", 0),
 ('c16_subeq_via_add_negated', ['C16'], MATH, "    lh = fixed_substract(lh,rh);", "    lh = fixed_addition(lh,-rh);", 0),
 ('c02_fastpath_32bits', ['C02'], MATH, "if( fixed_likely( ((ulh | urh) >> 31) == 0 ) )", "if( fixed_likely( ((ulh | urh) >> 32) == 0 ) )", 0),
 ('c02_negative_limit', ['C02'], MATH, "((lh < 0) != (rh < 0)) ? fixed_internal_unsigned{1} << 63 : (fixed_internal_unsigned{1} << 63) - 1", "(fixed_internal_unsigned{1} << 63) - 1", 0),
 ('c02_scalar_no_range_check', ['C02'], MATH, "        if( fixed_likely( result >= limits_::lowest() && result <= limits_::max() ) )\n          return result;", "        return result;", 0),
 ('c02_u64_reinterpreted', ['C02', 'C16'], MATH, "          return lh.v == 0 ? lh : quiet_NaN_result();", "          {}", 0),
 ('c03_scalar_zero_check', ['C03'], MATH, "      if( fixed_likely(rh != 0) )\n        {\n        fixed_t const result = as_fixed( lh.v / promote_type_to_signed(rh) );", "      if( fixed_likely(true) )\n        {\n        fixed_t const result = as_fixed( lh.v / promote_type_to_signed(rh) );", 0),
 ('c03_preshift_bound_inclusive', ['C03', 'C07'], MATH, "x.v > -(fixed_internal{1}<<47) && x.v < (fixed_internal{1}<<47)", "x.v >= -(fixed_internal{1}<<47) && x.v <= (fixed_internal{1}<<47)", 0),
 ('c04_max_integral_exclusive', ['C04'], MATH, "cxx20::cmp_less_equal(value, detail::limits_::max_integral())", "cxx20::cmp_less(value, detail::limits_::max_integral())", 0),
 ('c04_min_integral_int32min', ['C04'], LIMITS, "return -2147483647; }", "return -2147483647-1; }", 0),
 ('c04_trunc_instead_of_floor', ['C04'], MATH, "fixed_internal tmp{ ( value.v >> 16 )", "fixed_internal tmp{ ( value.v / 65536 )", 0),
 ('c05_float_limit', ['C05'], MATH, "value < double(detail::limits_::max_integral())", "value < float(detail::limits_::max_integral())", 0),
 ('c05_split_conversion', ['C05'], MATH, "    return static_cast<ft>(value.v) / ft(65536);", "    return static_cast<ft>(value.v >> 16) + static_cast<ft>(value.v & 0xffff) / ft(65536);", 0),
 ('c06_isnan_without_abs', ['C06'], MATH, "    return abs( value ) == quiet_NaN_result();", "    return value == quiet_NaN_result();", 0),
 ('c06_ge_as_gt', ['C06'], TYPES, "operator >= ( fixed_t l, fixed_t r ) noexcept { return l.v >= r.v; }", "operator >= ( fixed_t l, fixed_t r ) noexcept { return l.v > r.v; }", 0),
 ('c18_shr_no_negative_test', ['C18', 'C07'], MATH, "    if( fixed_likely(r >= 0 ) )\n      return fix_carrier_t{l.v >> r};", "    if( fixed_likely(true) )\n      return fix_carrier_t{l.v >> r};", 0),
 ('c19_angle_361', ['C19', 'C07'], MATH, "    if(fixed_unlikely(angle < 0 || angle > 360) )", "    if(fixed_unlikely(angle < 0 || angle > 361) )", 0),
 ('c08_std_dependent_constant', ['C08'], MATH, "    constexpr fixed_internal atan_7o16 { 27028 }; // 27027,7307005264", "#if __cplusplus > 201703L\n    constexpr fixed_internal atan_7o16 { 27027 };\n#else\n    constexpr fixed_internal atan_7o16 { 27028 };\n#endif", 0),
 ('c09_fixup_off_by_one', ['C09'], MATH, "          rad = as_fixed( rad.v + _2phi.v );", "          rad = as_fixed( rad.v + _2phi.v - 1 );", 0),
 ('c09_coefficient', ['C09'], MATH, "constexpr fixed_internal _105{ fixed_internal{105}<<(prec_+prec_+3)};", "constexpr fixed_internal _105{ fixed_internal{104}<<(prec_+prec_+3)};", 0),
 ('c10_reflection_keeps_sign', ['C10'], MATH, "      x = phi.v - x;\n      sign_ = !sign_;", "      x = phi.v - x;", 0),
 ('c10_period_2phi', ['C10'], MATH, "        x = x % phi.v;", "        x = x % fixpi2.v;", 0),
 ('c11_atan_constant', ['C11'], MATH, "constexpr fixed_internal atan_11o16 { 39472 };", "constexpr fixed_internal atan_11o16 { 39475 };", 0),
 ('c11_large_threshold', ['C11'], MATH, "    else if( x < (fixed_internal{1}<<36) )", "    else if( x < (fixed_internal{1}<<46) )", 0),
 ('c11_atan2_quadrant', ['C11'], MATH, "      if( y >= 0_fix )\n        return atan(y/x) + phi;", "      if( y > 0_fix )\n        return atan(y/x) + phi;", 0),
 ('c12_series_limit', ['C12'], MATH, "      if( x_ <= (0.60_fix).v )", "      if( x_ <= (0.75_fix).v )", 0),
 ('c12_acos_constant', ['C12'], MATH, "      return as_fixed( phi2.v - asin(x).v );", "      return as_fixed( phi2.v - 2 - asin(x).v );", 0),
 ('c12_halved', ['C12'], MATH, "(asin<prec>(sqr <<ext_prec)>>(ext_prec-1))", "(asin<prec>(sqr <<ext_prec)>>(ext_prec))", 0),
 ('c13_pwr4_parity', ['C13'], COMMON, "      if( (clz & 1) == 0 )", "      if( (clz & 1) != 0 )", 0),
 ('c14_abacus_guard_2_47', ['C14'], MATH, "value.v >= (1ll<<48)", "value.v >= (1ll<<47)", 0),
 ('c14_no_swap', ['C14'], MATH, "    if( uhi < ulo )\n      detail::swap(uhi, ulo);", "", 0),
 ('c14_hypot_fix_removed', ['C14'], MATH, "      if( (uhi << lshbits) >= (1ull<<31) )\n        --lshbits;", "", 0),
 ('c15_ceil_adds_one', ['C15'], MATH, "static_cast<fixed_internal_unsigned>(value.v) + 0xffffu)", "static_cast<fixed_internal_unsigned>(value.v) + 0x10000u)", 0),
 ('c15_floor_by_division', ['C15'], MATH, "    value = as_fixed( value.v & ~((1<<16)-1) );", "    value = as_fixed( value.v / 65536 * 65536 );", 0),
 ('c16_double_sub_swapped', ['C16'], MATH, "      return detail::promoted_double_substract( lh, rh );", "      return detail::promoted_double_substract( rh, lh );", 0),
 ('c18_shl_mask', ['C18'], MATH, "& unsigned_fix_internal(0x7fffffffffffffffull))", "& unsigned_fix_internal(0x3fffffffffffffffull))", 0),
 ('c19_table_entry', ['C19'], SINTAB, "-36647ll /* sin(3.7349970499674479)", "-36651ll /* sin(3.7349970499674479)", 0),
 ('c19_cos_mod_361', ['C19'], MATH, "      angle = angle % 360;\n      //remainder of negative angle is negative and must not be used as table index\n      if( angle < 0 )\n        angle += 360;\n      }\n    return cos_angle_tab(angle);", "      angle = angle % 361;\n      //remainder of negative angle is negative and must not be used as table index\n      if( angle < 0 )\n        angle += 360;\n      }\n    return cos_angle_tab(angle);", 0),
 ('c19_atan_index_shift', ['C19'], SRC, "      return as_fixed( fixed_internal(index) << 15);", "      return as_fixed( fixed_internal(index) << 14);", 0),
 ('c19_sqrt_aprox_mask', ['C19'], SRC, "( value.v >> 6 ) ) & 0xfe;", "( value.v >> 6 ) ) & 0xff;", 0),
 ('c20_angle_lt_360', ['C20'], MATH, "cxx20::cmp_less_equal(angle, 360)", "cxx20::cmp_less(angle, 360)", 0),
 ('c20_sin_angle_179', ['C20'], MATH, "    return sin( angle * phi / 180 );", "    return sin( angle * phi / 179 );", 0),
 ('c07_sin_range_unfixed', ['C07', 'C08'], MATH, "( phi2.v + rad.v % _2phi.v ) % _2phi.v - phi2.v", "( phi2.v + rad.v ) % _2phi.v - phi2.v", 0),
 ('c08_subeq_inline', ['C08'], MATH, "  constexpr fixed_t & operator -= ( fixed_t & lh, supported_type rh ) noexcept", "  inline fixed_t & operator -= ( fixed_t & lh, supported_type rh ) noexcept", 0),
 ('c17_mul_zero_shortcut', ['C17', 'C02'], MATH, "      if( fixed_likely( !multiply_overflows(lh.v, rh.v) ) )\n        return fix_carrier_t{ multiply_wrapping(lh.v, rh.v) >> 16 };", "      if( rh.v == 65536 ) return lh; if( lh.v == 65536 ) return rh;\n      if( fixed_likely( !multiply_overflows(lh.v, rh.v) ) )\n        return fix_carrier_t{ (multiply_wrapping(lh.v, rh.v) + 1) >> 16 };", 0),
]


def sh(cmd, **kw):
    return subprocess.run(cmd, shell=isinstance(cmd, str), capture_output=True, text=True, **kw)


def apply(path, old, new):
    p = os.path.join(REPO, path)
    s = open(p).read()
    lines = old.split('\n')
    pat = r'[ \t]*\n'.join(re.escape(l.rstrip()) for l in lines)
    found = re.findall(pat, s)
    if len(found) != 1:
        return f'pattern found {len(found)} times'
    s = re.sub(pat, lambda m: new, s)
    open(p, 'w').write(s)
    return None


def main():
    ap = argparse.ArgumentParser()
    ap.add_argument('--only')
    ap.add_argument('--tier', default='quick')
    ap.add_argument('--skip-tests', action='store_true')
    a = ap.parse_args()
    if sh(['git', '-C', REPO, 'status', '--porcelain', '--untracked-files=no']).stdout.strip():
        print('refusing: /repo has uncommitted changes')
        return 2
    only = set(a.only.split(',')) if a.only else None
    out = []
    for (mid, props, path, old, new, _) in M:
        if only and mid not in only:
            continue
        rec = {'id': mid, 'targets': props}
        err = apply(path, old, new)
        try:
            if err:
                rec['status'] = 'pattern-error: ' + err
            else:
                if not a.skip_tests:
                    t = sh([os.path.join(VERIF, 'baseline_off.sh')])
                    rec['tests_exit'] = t.returncode
                if rec.get('tests_exit', 0) != 0:
                    rec['status'] = 'killed-by-existing-tests (not a valid seed)'
                else:
                    rec['checks'] = {}
                    caught = False
                    for p in props:
                        t0 = time.time()
                        c = sh(['python3', os.path.join(VERIF, 'vcheck.py'), p, '--tier', a.tier])
                        keys = re.findall(r'^  key=(.*?) count=', c.stdout, re.M)
                        rec['checks'][p] = {'exit': c.returncode, 'keys': keys[:6], 'n_keys': len(keys), 'wall': round(time.time() - t0, 1)}
                        if c.returncode == 2:
                            rec['checks'][p]['stderr'] = c.stderr[-300:]
                        caught = caught or c.returncode == 1
                    rec['status'] = 'caught' if caught else 'MISSED'
        finally:
            sh(['git', '-C', REPO, 'checkout', '--', '.'])
        print(mid, rec['status'], {p: (v['exit'], v['n_keys']) for p, v in rec.get('checks', {}).items()}, flush=True)
        out.append(rec)
    sh(['git', '-C', VERIF, 'checkout', '--', 'evidence'])
    os.makedirs(os.path.join(VERIF, 'notes'), exist_ok=True)
    json.dump(out, open(os.path.join(VERIF, 'notes', 'mutants_result.json'), 'w'), indent=1)
    return 0


if __name__ == '__main__':
    sys.exit(main())

#include <fixedmath/fixed_math.hpp>
#include <cstdio>
#include <cinttypes>
#include <csignal>
#include <csetjmp>
#include <cstring>
#include <ucontext.h>
#pragma GCC diagnostic ignored "-Wdeprecated-declarations"
using namespace fixedmath;
static sigjmp_buf jb; static volatile sig_atomic_t armed; static volatile uintptr_t fault_pc; static volatile int fault_sig;
static void h(int s, siginfo_t*, void*uc){ fault_sig=s; fault_pc=((ucontext_t*)uc)->uc_mcontext.gregs[REG_RIP]; if(armed) siglongjmp(jb,1); _exit(99); }
extern "C" __attribute__((noinline)) int64_t w_add(int64_t a,int64_t b){ return (as_fixed(a)+as_fixed(b)).v; }
extern "C" __attribute__((noinline)) int64_t w_div(int64_t a,int64_t b){ return (as_fixed(a)/as_fixed(b)).v; }
extern "C" __attribute__((noinline)) int64_t w_sina(int64_t a,int64_t){ return sin_angle_aprox((int32_t)a).v; }
extern "C" __attribute__((noinline)) int64_t w_atan(int64_t a,int64_t){ return atan(as_fixed(a)).v; }
typedef int64_t(*fn)(int64_t,int64_t);
int main(){
  struct sigaction sa; memset(&sa,0,sizeof sa); sa.sa_sigaction=h; sa.sa_flags=SA_SIGINFO|SA_NODEFER; for(int s: {SIGILL,SIGFPE,SIGSEGV,SIGBUS,SIGABRT,SIGTRAP}) sigaction(s,&sa,0);
  struct {const char*n; fn f; int64_t a,b;} cases[]={{"add ok",w_add,1,2},{"add ovf",w_add,INT64_MAX-1,INT64_MAX-1},{"add ovf2",w_add,INT64_MAX-1,5},{"div trap",w_div,-(1ll<<47),-1},{"div ok",w_div,65536,131072},{"sina -5",w_sina,-5,0},{"sina 5",w_sina,5,0},{"atan big",w_atan,1ll<<46,0},{"atan 1",w_atan,65536,0}};
  int traps=0;
  for(auto&c:cases){ armed=1; if(sigsetjmp(jb,1)==0){ int64_t r=c.f(c.a,c.b); armed=0; printf("%-10s -> %" PRId64 "\n",c.n,r);} else { armed=0; traps++; printf("%-10s -> SIGNAL %d pc=%#lx\n",c.n,fault_sig,(unsigned long)fault_pc);} }
  printf("traps=%d\n",traps);
}

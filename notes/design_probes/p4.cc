#include <fixedmath/fixed_math.hpp>
#include <cstdio>
#include <cinttypes>
#include <cmath>
using namespace fixedmath;
using ld = long double;
static ld val(fixed_t x){ return (ld)x.v/65536.0L; }
int main(){
  int64_t lim=205887; int64_t first=-1,last=-1; int viol=0; ld worst_in=0; int64_t w=0;
  for(int64_t r=0;r<=lim;++r){
    fixed_t t=tan(as_fixed(r)); if(isnan(t)) continue;
    ld tt=tanl(val(as_fixed(r))); ld b=2.5L/65536*(1+tt*tt); ld e=fabsl(val(t)-tt);
    if(e>b){ viol++; if(first<0) first=r; last=r; }
    else if(e/b>worst_in){worst_in=e/b;w=r;}
  }
  printf("viol=%d first=%ld (%.6f rad) last=%ld; worst ratio among non-viol=%Lg at %ld; 3pi/4 raw=%f\n",viol,first,first/65536.0,last,worst_in,w,3*M_PI/4*65536);
  // holes inside [first,last]?
  int ok_inside=0; for(int64_t r=first;r<=last;++r){ fixed_t t=tan(as_fixed(r)); ld tt=tanl(val(as_fixed(r))); ld b=2.5L/65536*(1+tt*tt); ld e=fabsl(val(t)-tt); if(e<=b) ok_inside++; }
  printf("ok inside [first,last]=%d\n",ok_inside);
  // periodicity x>=0,k>=0 and larger args
  int pv=0; for(int64_t r=0;r<205887;r+=7) for(int k=1;k<50;k+=7){ if(tan(as_fixed(r)).v!=tan(as_fixed(r+(int64_t)k*205887)).v) pv++; }
  printf("period viol=%d\n",pv);
  // pole
  for(int64_t k=0;k<5;k++){ int64_t r=102944+k*205887; printf("pole r=%ld nan=%d  neg nan=%d\n",r,isnan(tan(as_fixed(r))),isnan(tan(as_fixed(-r)))); }
  // x in (pi/2, 3pi/4]: sample
  for(int64_t r: {102945l,102946l,103000l,110000l,150000l,154415l,154416l,154417l,160000l}) printf("r=%ld tan=%Lf want %Lf\n",r,val(tan(as_fixed(r))),tanl(r/65536.0L));
}

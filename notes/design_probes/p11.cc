#include <fixedmath/fixed_math.hpp>
#include <cstdio>
#include <cinttypes>
#include <cmath>
#include <random>
using namespace fixedmath;
using ld = long double;
static ld val(fixed_t x){ return (ld)x.v/65536.0L; }
static std::mt19937_64 g(99);
int main(){
  // find smallest |r| with violation by scanning log-spaced + dense around threshold
  const int64_t thr = INT64_MAX/159744; printf("mul overflow threshold raw=%ld (value %.1f)\n", thr, thr/65536.0);
  ld worst=0; int64_t w=0; int viol=0; int64_t minviol=INT64_MAX;
  for(int i=0;i<40000000;i++){ int b=22+g()%25; int64_t r=(1ll<<b)|(g()&((1ll<<b)-1)); fixed_t a=atan(as_fixed(r)); ld e=fabsl(val(a)-atanl(val(as_fixed(r)))); if(e>5e-5L){viol++; if(r<minviol)minviol=r;} else if(e>worst){worst=e;w=r;} }
  printf("atan [2^22,2^47): viol=%d minviol=%ld worst_nonviol=%Lg at %ld\n",viol,minviol,worst,w);
  // dense around threshold
  int64_t lo=thr-2000000, firstbad=-1; int badbelow=0; for(int64_t r=lo;r<thr+2000000;r++){ fixed_t a=atan(as_fixed(r)); ld e=fabsl(val(a)-atanl(val(as_fixed(r)))); if(e>5e-5L){ if(firstbad<0) firstbad=r; if(r<=thr) badbelow++; } }
  printf("dense: firstbad=%ld thr=%ld badbelow=%d\n",firstbad,thr,badbelow);
  // above threshold: is every value bad? fraction
  int bad=0,tot=0; for(int i=0;i<1000000;i++){ int64_t r=thr+1+g()%((1ll<<47)-thr-1); fixed_t a=atan(as_fixed(r)); ld e=fabsl(val(a)-atanl(val(as_fixed(r)))); tot++; if(e>5e-5L) bad++; }
  printf("above thr: bad %d / %d\n",bad,tot);
}

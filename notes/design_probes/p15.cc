#include <fixedmath/fixed_math.hpp>
#include <cstdio>
#include <type_traits>
using namespace fixedmath;
int main(){
  fixed_t a{3}; 
  a += 1; a += 1u; a += int8_t(1); a += uint64_t(1); a += 1.5f; a -= 2; a *= 2; a /= 2; a *= 1.5f; a/= 0.5f; a += fixed_t{1};
  static_assert(std::is_same_v<decltype(a+1.0),double>); static_assert(std::is_same_v<decltype(1.0-a),double>); static_assert(std::is_same_v<decltype(a*1.0),double>); static_assert(std::is_same_v<decltype(1.0/a),double>);
  static_assert(std::is_same_v<decltype(2/a),fixed_t>); static_assert(std::is_same_v<decltype(2.f/a),fixed_t>); static_assert(std::is_same_v<decltype(a/2.f),fixed_t>);
  printf("%ld  3.0/2.0(double-fixed)=%f fixed-double=%f  7/fixed2=%ld\n", a.v, 3.0/fixed_t{2}, fixed_t{3}-1.25, (7/fixed_t{2}).v);
#ifdef DBL
  a += 1.0;
#endif
}

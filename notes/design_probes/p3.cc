#include <fixedmath/fixed_math.hpp>
#include <cstdio>
#include <cinttypes>
#include <cmath>
#include <random>
using namespace fixedmath;
using ld = long double;
static const ld PI = 3.14159265358979323846264338327950288L;
static ld val(fixed_t x){ return (ld)x.v/65536.0L; }
int main(){
  // C09 accuracy
  {
    int64_t lim = (int64_t)floorl(2*PI*65536.0L);
    ld worst_s=0, worst_c=0; int64_t ws=0,wc=0; ld maxabs=0; int viol_s=0, viol_c=0;
    for(int64_t r=-lim;r<=lim;++r){
      fixed_t x=as_fixed(r); ld xv=val(x);
      ld s=val(sin(x)), c=val(cos(x));
      ld ts=sinl(xv), tc=cosl(xv);
      ld rs=fabsl(asinl(ts)), rc=fabsl(asinl(tc));
      ld bs=4.0L/65536 + powl(rs,9)/362880.0L, bc=4.0L/65536 + powl(rc,9)/362880.0L;
      ld es=fabsl(s-ts), ec=fabsl(c-tc);
      if(es>bs) {viol_s++; if(viol_s<5) printf("sin viol r=%ld err=%Lg ulp bound=%Lg ulp\n",r,es*65536,bs*65536);}
      if(ec>bc) {viol_c++; if(viol_c<5) printf("cos viol r=%ld err=%Lg ulp bound=%Lg ulp\n",r,ec*65536,bc*65536);}
      if(es/bs>worst_s){worst_s=es/bs;ws=r;} if(ec/bc>worst_c){worst_c=ec/bc;wc=r;}
      maxabs=fmaxl(maxabs,fmaxl(fabsl(s),fabsl(c)));
    }
    printf("C09 n=%ld sin viol=%d worst ratio %Lg at %ld ; cos viol=%d worst ratio %Lg at %ld; max|.|=%Lg\n",2*lim+1,viol_s,worst_s,ws,viol_c,worst_c,wc,maxabs);
    // periodicity
    std::mt19937_64 g(1); int pv=0; long n=0;
    for(int i=0;i<2000000;i++){
      int64_t r=(int64_t)(g()>>18); if(g()&1) r=-r; // |r|<2^46
      int64_t k=(int64_t)(g()%2000001)-1000000; 
      __int128 r2=(__int128)r+(__int128)k*2*205887; if(r2<0?-r2>=((__int128)1<<62):r2>=((__int128)1<<62)) continue;
      n++;
      if(sin(as_fixed(r)).v!=sin(as_fixed((int64_t)r2)).v || cos(as_fixed(r)).v!=cos(as_fixed((int64_t)r2)).v){ if(pv++<5) printf("period viol r=%ld k=%ld\n",r,k);}
    }
    printf("C09 periodic n=%ld viol=%d\n",n,pv);
  }
  // C10
  {
    int64_t lim=(int64_t)floorl(PI*65536.0L); int viol=0; ld worst=0; int64_t w=0; int nan_cnt=0, oddv=0;
    for(int64_t r=-lim;r<=lim;++r){
      fixed_t x=as_fixed(r); fixed_t t=tan(x);
      if(tan(as_fixed(-r)).v != -t.v && !(isnan(t))) oddv++;
      int64_t a=r<0?-r:r; bool pole = (a%205887)==102944 ;
      if(isnan(t)){ nan_cnt++; if(!pole) printf("nan non-pole r=%ld\n",r); continue;}
      if(pole) { printf("pole not nan r=%ld\n",r); continue;}
      ld xv=val(x), tt=tanl(xv); ld b=2.5L/65536*(1+tt*tt); ld e=fabsl(val(t)-tt);
      if(e>b){ if(viol++<8) printf("tan viol r=%ld got=%Lg want=%Lg err=%Lg ulp bound=%Lg ulp\n",r,val(t),tt,e*65536,b*65536);} if(e/b>worst){worst=e/b;w=r;}
    }
    printf("C10 n=%ld viol=%d worst=%Lg at %ld nan=%d odd viol=%d\n",2*lim+1,viol,worst,w,nan_cnt,oddv);
  }
  return 0;
}

#include <dlfcn.h>
#include <cstdio>
#include <cstdint>
#include <vector>
#include <string>
typedef int64_t(*fn)(int64_t,int64_t);
int main(int argc,char**argv){ std::vector<void*> hs; for(int i=1;i<argc;i++){ void*h=dlopen(argv[i],RTLD_NOW|RTLD_LOCAL); if(!h){ printf("dlopen fail %s\n",dlerror()); return 2;} hs.push_back(h);} 
 const char* names[]={"w_add","w_add_pos","w_sqrt","w_sqrt_aprox"}; int64_t in[][2]={{INT64_MAX-1,INT64_MAX-1},{INT64_MAX-1,INT64_MAX-1},{131072,0},{131072,0}};
 for(int k=0;k<4;k++){ printf("%-12s",names[k]); for(void*h:hs){ fn f=(fn)dlsym(h,names[k]); printf(" %20ld",f(in[k][0],in[k][1])); } puts(""); }
 for(void*h:hs){ auto c=(const char*(*)())dlsym(h,"w_cfg"); printf("  cfg=%s\n",c()); } }

#include <fixedmath/fixed_math.hpp>
#include <cstdio>
#include <cmath>
#include <random>
using namespace fixedmath; using ld=long double;
static std::mt19937_64 g(7);
static int64_t rnd_mag(int maxbits){ int b = 1 + g()%maxbits; int64_t r = (int64_t)(g() & ((1ull<<b)-1)); return (g()&1)? -r : r; }
int main(){ int viol=0,nanv=0; int64_t minhi=INT64_MAX,maxhi=0;
 for(int i=0;i<20000000;i++){ int64_t a=rnd_mag(47), b=rnd_mag(47); fixed_t h=hypot(as_fixed(a),as_fixed(b)); ld t=sqrtl((ld)a*a+(ld)b*b)/65536.0L; ld e=fabsl((ld)h.v/65536-t);
  bool small=(a<0?-a:a)<(16384ll<<16)&&(b<0?-b:b)<(16384ll<<16); bool bad= small? e*65536>2.0L : e>1.5e-4L*t; if(isnan(h)||h.v<0) nanv++; if(bad){ int64_t hi=std::max(a<0?-a:a,b<0?-b:b); minhi=std::min(minhi,hi); maxhi=std::max(maxhi,hi); if(viol++<5) printf("viol a=%ld b=%ld got=%ld want=%Lf\n",a,b,h.v,t*65536);} }
 printf("abacus hypot: viol=%d nan/neg=%d hi range of violations [%ld,%ld] (2^29=%ld 2^30=%ld)\n",viol,nanv,minhi,maxhi,1l<<29,1l<<30); }

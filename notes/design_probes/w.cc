#include <fixedmath/fixed_math.hpp>
#pragma GCC diagnostic ignored "-Wdeprecated-declarations"
using namespace fixedmath;
extern "C" {
int64_t w_add(int64_t a,int64_t b){ return (as_fixed(a)+as_fixed(b)).v; }
int64_t w_add_pos(int64_t a,int64_t b){ if(a<=0||b<=0) return 0; return (as_fixed(a)+as_fixed(b)).v; }
int64_t w_sqrt(int64_t a,int64_t){ return sqrt(as_fixed(a)).v; }
int64_t w_sqrt_aprox(int64_t a,int64_t){ return sqrt_aprox(as_fixed(a)).v; }
const char* w_cfg(){ return CFG; }
}

#define FIXEDMATH_ENABLE_SQRT_ABACUS_ALGO_X
#include <fixedmath/fixed_math.hpp>
#include <cstdio>
#include <cinttypes>
#include <cmath>
#include <random>
using namespace fixedmath;
using ld = long double;
static const ld PI = 3.14159265358979323846264338327950288L;
static ld val(fixed_t x){ return (ld)x.v/65536.0L; }
static std::mt19937_64 g(7);
static int64_t rnd_mag(int maxbits){ int b = 1 + g()%maxbits; int64_t r = (int64_t)(g() & ((1ull<<b)-1)); return (g()&1)? -r : r; }
int main(){
  // C11 atan: exhaustive on |raw| < 2^22 (64.0), then random to 2^47
  {
    ld worst=0; int64_t w=0; int viol=0, odd=0, bnd=0, mono=0; int64_t prev=INT64_MIN; ld worstmono=0;
    for(int64_t r=-(1<<22); r<=(1<<22); ++r){
      fixed_t a=atan(as_fixed(r)); ld e=fabsl(val(a)-atanl(val(as_fixed(r))));
      if(e>5e-5L){ if(viol++<5) printf("atan viol r=%ld err=%Lg\n",r,e);} if(e>worst){worst=e;w=r;}
      if(atan(as_fixed(-r)).v!=-a.v) odd++;
      if(a.v>102944||a.v<-102944) bnd++;
      if(prev!=INT64_MIN && prev > a.v+2) { if(mono++<5) printf("mono viol r=%ld prev=%ld cur=%ld\n",r,prev,a.v);} 
      if(prev!=INT64_MIN && prev-a.v>worstmono) worstmono=prev-a.v;
      prev=a.v;
    }
    printf("C11 atan exh |r|<=2^22: viol=%d worst=%Lg at %ld odd=%d bound=%d mono=%d worst decrease=%Lg\n",viol,worst,w,odd,bnd,mono,worstmono);
    viol=0; worst=0; bnd=0; int ubish=0;
    for(int i=0;i<5000000;i++){ int64_t r=rnd_mag(47); fixed_t a=atan(as_fixed(r)); ld e=fabsl(val(a)-atanl(val(as_fixed(r))));
      if(e>5e-5L){ if(viol++<10) printf("atan viol r=%ld (%.3Lf) got %Lf err=%Lg\n",r,val(as_fixed(r)),val(a),e);} if(e>worst){worst=e;w=r;}
      if(a.v>102944||a.v<-102944) bnd++; }
    printf("C11 atan rnd: viol=%d worst=%Lg at %ld bound=%d\n",viol,worst,w,bnd);
  }
  // atan2
  {
    int viol=0, signv=0; ld worst=0; int64_t wy=0,wx=0;
    for(int i=0;i<5000000;i++){ int64_t y=rnd_mag(47), x=rnd_mag(47); if(x==0&&y==0) continue;
      fixed_t a=atan2(as_fixed(y),as_fixed(x)); ld t=atan2l((ld)y,(ld)x); ld e=fabsl(val(a)-t); if(e>PI) e=2*PI-e; // wrap? property says within of true angle in (-pi,pi]
      ld e_nowrap=fabsl(val(a)-t);
      if(e_nowrap>8e-5L){ if(viol++<10) printf("atan2 viol y=%ld x=%ld got=%Lf want=%Lf err=%Lg nan=%d\n",y,x,val(a),t,e_nowrap,isnan(a)); } if(e_nowrap>worst && !isnan(a)){worst=e_nowrap;wy=y;wx=x;}
      if((y>0&&a.v<0)||(y<0&&a.v>0)) signv++;
    }
    printf("C11 atan2 rnd: viol=%d worst(nonnan)=%Lg at y=%ld x=%ld signviol=%d\n",viol,worst,wy,wx,signv);
    printf("axis: atan2(1,0)=%ld atan2(-1,0)=%ld atan2(0,1)=%ld atan2(0,-1)=%ld atan2(0,0)nan=%d\n",atan2(fixed_t{1},fixed_t{0}).v,atan2(fixed_t{-1},fixed_t{0}).v,atan2(fixed_t{0},fixed_t{1}).v,atan2(fixed_t{0},fixed_t{-1}).v,isnan(atan2(fixed_t{0},fixed_t{0})));
  }
  return 0;
}

#include <fixedmath/fixed_math.hpp>
#include <cstdio>
#include <cinttypes>
using namespace fixedmath;
// call sites with range knowledge
__attribute__((noinline)) int64_t add_pos(int64_t a, int64_t b){ if(a<=0||b<=0) return 0; fixed_t r = as_fixed(a)+as_fixed(b); return r.v; }
__attribute__((noinline)) bool add_pos_isnan(int64_t a, int64_t b){ if(a<=0||b<=0) return false; fixed_t r = as_fixed(a)+as_fixed(b); return isnan(r); }
__attribute__((noinline)) int64_t add_const(int64_t a){ fixed_t r = as_fixed(a)+as_fixed(0x7ffffffffffffff0ll); return r.v; }
__attribute__((noinline)) int64_t acc(int64_t a, int n){ fixed_t s=as_fixed(a); for(int i=0;i<n;i++) s += as_fixed(a); return s.v; }
__attribute__((noinline)) int64_t sub_mixed(int64_t a, int64_t b){ if(a>=0||b<=0) return 0; fixed_t r = as_fixed(a)-as_fixed(b); return r.v; }
__attribute__((noinline)) bool lt_after(int64_t a, int64_t b){ if(a<=0||b<=0) return false; fixed_t r = as_fixed(a)+as_fixed(b); return r < as_fixed(a); } // user idiom
int main(){
  volatile int64_t mx=0x7ffffffffffffffell;
  printf("add_pos(max,max)=%" PRId64 " isnan=%d\n", add_pos(mx,mx), add_pos_isnan(mx,mx));
  printf("add_const(0x100)=%" PRId64 "\n", add_const(0x100));
  printf("acc(max/3+5, 3)=%" PRId64 "\n", acc(mx/3+5,3));
  printf("sub_mixed(-max,max)=%" PRId64 "\n", sub_mixed(-mx,mx));
  printf("lt_after=%d\n", lt_after(mx,mx));
}

#include <fixedmath/fixed_math.hpp>
#include <cstdio>
#include <cinttypes>
#include <cmath>
#include <random>
#pragma GCC diagnostic ignored "-Wdeprecated-declarations"
using namespace fixedmath;
using ld = long double;
static const ld PI = 3.14159265358979323846264338327950288L;
static ld val(fixed_t x){ return (ld)x.v/65536.0L; }
static std::mt19937_64 g(7);
int main(){
  // table entries
  int v=0; ld w=0;
  for(int i=0;i<=360;i++){ ld e=fabsl(val(sin_angle_tab(i))-sinl(i*PI/180))*65536; ld e2=fabsl(val(cos_angle_tab(i))-cosl(i*PI/180))*65536; if(e>2||e2>2) v++; w=fmaxl(w,fmaxl(e,e2)); }
  printf("sin/cos tab viol=%d worst=%Lg ulp\n",v,w); v=0;w=0;
  for(int i=0;i<256;i++){ if(i==128) continue; ld t=tanl(i*PI/256); ld e=fabsl(val(tan_tab(i))-t)*65536/(1+t*t); if(e>2) {v++; printf("tan tab i=%d got %ld want %Lf\n",i,tan_tab(i).v,t*65536);} w=fmaxl(w,e);} printf("tan tab viol=%d worst=%Lg; tab[128]=%ld\n",v,w,tan_tab(128).v); v=0; w=0;
  for(int i=0;i<256;i++){ ld t=65536*sqrtl(i/256.0L+31.0L/262144); ld e=fabsl(square_root_tab(i)-t); if(e>1) v++; w=fmaxl(w,e);} printf("sqrt tab viol=%d worst=%Lg\n",v,w);
  // sin_angle_aprox in-range d in [0,360]
  v=0; for(int d=0; d<=360; ++d){ ld e=fabsl(val(sin_angle_aprox(d))-sinl(d*PI/180))*65536; ld e2=fabsl(val(cos_angle_aprox(d))-cosl(d*PI/180))*65536; if(e>2||e2>2) v++; }
  printf("aprox [0,360] viol=%d\n",v);
  v=0; for(int d=361; d<=100000; ++d){ ld e=fabsl(val(sin_angle_aprox(d))-sinl((d%360)*PI/180))*65536; if(e>2) v++; } printf("aprox (360,1e5] viol=%d\n",v);
  // sqrt_aprox
  { int viol=0; ld worst=0; int64_t wr=0; 
    for(int64_t r=1;r<(1ll<<24);++r){ ld t=sqrtl(r/65536.0L); ld e=fabsl(val(sqrt_aprox(as_fixed(r)))-t)/t; if(e>0.02L){ if(viol++<5) printf("sqrt_aprox viol r=%ld got %Lf want %Lf\n",r,val(sqrt_aprox(as_fixed(r))),t);} if(e>worst){worst=e;wr=r;} }
    printf("sqrt_aprox exh<2^24: viol=%d worst=%Lg at %ld\n",viol,worst,wr);
    viol=0;worst=0; for(int i=0;i<5000000;i++){ int b=1+g()%37; int64_t r=(g()&((1ull<<b)-1))|(1ull<<(b-1)); ld t=sqrtl(r/65536.0L); ld e=fabsl(val(sqrt_aprox(as_fixed(r)))-t)/t; if(e>0.02L){ if(viol++<5) printf("sqrt_aprox viol r=%ld got %Lf want %Lf\n",r,val(sqrt_aprox(as_fixed(r))),t);} if(e>worst){worst=e;wr=r;} }
    printf("sqrt_aprox rnd<2^37: viol=%d worst=%Lg at %ld ; 0->%ld neg nan=%d\n",viol,worst,wr,sqrt_aprox(as_fixed(0)).v,isnan(sqrt_aprox(as_fixed(-5))));
  }
  // atan_index_aprox
  { int viol=0; ld worst=0; int64_t wr=0;
    for(int64_t r=-(1<<22); r<=(1<<22); ++r){ ld t=atanl(r/65536.0L)*128/PI; ld e=fabsl(val(atan_index_aprox(as_fixed(r)))-t); if(e>1.25L){ if(viol++<5) printf("atan_idx viol r=%ld got %Lf want %Lf\n",r,val(atan_index_aprox(as_fixed(r))),t);} if(e>worst){worst=e;wr=r;} }
    printf("atan_index exh: viol=%d worst=%Lg at %ld\n",viol,worst,wr);
    viol=0;worst=0; for(int i=0;i<3000000;i++){ int b=1+g()%47; int64_t r=(g()&((1ull<<b)-1)); if(g()&1) r=-r; ld t=atanl(r/65536.0L)*128/PI; ld e=fabsl(val(atan_index_aprox(as_fixed(r)))-t); if(e>1.25L){ if(viol++<5) printf("atan_idx viol r=%ld got %Lf want %Lf\n",r,val(atan_index_aprox(as_fixed(r))),t);} if(e>worst){worst=e;wr=r;} }
    printf("atan_index rnd: viol=%d worst=%Lg at %ld\n",viol,worst,wr);
  }
  // C20
  { int v=0; for(int d=0; d<=360; ++d){ ld e=fabsl(val(angle_to_radians(d))-d*PI/180)*65536; if(e>2) v++; if(angle_to_radians((int16_t)d).v!=angle_to_radians((uint64_t)d).v || angle_to_radians((int64_t)d).v!=angle_to_radians(d).v) v+=1000; }
    printf("angle_to_radians viol=%d  nan(-1)=%d nan(361)=%d  int8(100)=%ld uint8(200)=%ld  uint8: 360 as u8 =%ld\n",v,isnan(angle_to_radians(-1)),isnan(angle_to_radians(361)),angle_to_radians((int8_t)100).v,angle_to_radians((uint8_t)200).v, angle_to_radians((uint8_t)104).v);
    // int8: integral_type(360) = 104 as int8 → angle <= 104 ; so int8 d=105..127 → NaN (should be valid)
    printf("int8 d=120: nan=%d ; uint8 d=250 nan=%d ; uint8 d=104 nan=%d\n", isnan(angle_to_radians((int8_t)120)), isnan(angle_to_radians((uint8_t)250)), isnan(angle_to_radians((uint8_t)104)));
    int vs=0,vc=0,vt=0,ty=0; 
    for(int d=-360; d<=360; ++d){ ld x=d*PI/180; ld ts=sinl(x),tc=cosl(x),tt=tanl(x);
      ld bs=7.0L/65536+powl(fabsl(asinl(ts)),9)/362880, bc=7.0L/65536+powl(fabsl(asinl(tc)),9)/362880;
      fixed_t s=sin_angle(d), c=cos_angle(d), t=tan_angle(d);
      if(fabsl(val(s)-ts)>bs) vs++; if(fabsl(val(c)-tc)>bc) vc++;
      if(d%180!=90 && d%180!=-90){ ld bt=5.0L/65536*(1+tt*tt); if(fabsl(val(t)-tt)>bt){ if(vt++<10) printf("tan_angle viol d=%d got %Lf want %Lf\n",d,val(t),tt);} } else printf("tan_angle(%d) nan=%d val=%Lf\n",d,isnan(t),val(t));
      if(sin_angle((int64_t)d).v!=s.v || sin_angle((float)d).v!=s.v || sin_angle(fixed_t{d}).v!=s.v || sin_angle((int16_t)d).v!=s.v) ty++;
      if(tan_angle((int64_t)d).v!=t.v || tan_angle((float)d).v!=t.v || tan_angle(fixed_t{d}).v!=t.v || tan_angle((int16_t)d).v!=t.v) ty++;
    }
    printf("C20 sin viol=%d cos viol=%d tan viol=%d type mismatch=%d\n",vs,vc,vt,ty);
  }
}

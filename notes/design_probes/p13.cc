#include <fixedmath/fixed_math.hpp>
#include <cstdio>
#include <cinttypes>
#include <cstring>
#include <random>
using namespace fixedmath;
static uint64_t H=1469598103934665603ull; static void mix(int64_t v){ H^=(uint64_t)v; H*=1099511628211ull; }
static uint64_t s=88172645463325252ull; static uint64_t rng(){ s^=s<<13; s^=s>>7; s^=s<<17; return s; }
int main(){
  uint64_t hs[12]={0};
  for(int i=0;i<2000000;i++){
    int b=1+rng()%46; int64_t r=(int64_t)(rng()&((1ull<<b)-1)); if(rng()&1) r=-r; fixed_t a=as_fixed(r);
    int b2=1+rng()%46; int64_t r2=(int64_t)(rng()&((1ull<<b2)-1)); if(rng()&1) r2=-r2; fixed_t c=as_fixed(r2);
    uint32_t fb=(uint32_t)rng(); float f; memcpy(&f,&fb,4); uint64_t db=rng(); double d; memcpy(&d,&db,8);
    H=hs[0]; mix(sin(a).v); mix(cos(a).v); hs[0]=H;
    H=hs[1]; mix(tan(a).v); hs[1]=H;
    H=hs[2]; if(r<57738456761160 && r>-57738456761160) mix(atan(a).v); hs[2]=H;
    H=hs[3]; mix(asin(as_fixed(r%65537)).v); mix(acos(as_fixed(r%65537)).v); hs[3]=H;
    H=hs[4]; mix(sqrt(as_fixed(r<0?-r:r)).v); hs[4]=H;
    H=hs[5]; mix(hypot(a,c).v); hs[5]=H;
    H=hs[6]; mix(fixed_t{f}.v); mix(fixed_t{d}.v); mix(fixed_t{(float)(r/65536.0)}.v); mix(fixed_t{r/65536.0+1e-6}.v); hs[6]=H;
    H=hs[7]; float ff=(float)a; double dd=(double)a; uint32_t x; uint64_t y; memcpy(&x,&ff,4); memcpy(&y,&dd,8); mix(x); mix((int64_t)y); hs[7]=H;
    H=hs[8]; mix((a+c).v); mix((a-c).v); if(b+b2<62) mix((a*c).v); if(r2) mix((a/c).v); hs[8]=H;
    H=hs[9]; mix(floor(a).v); mix(ceil(a).v); mix((a>>(b%64)).v); mix((a<<(b2%16)).v); hs[9]=H;
    H=hs[10]; mix(detail::sqrt_abacus(as_fixed((r<0?-r:r)>>2)).v); hs[10]=H;
  }
  for(int i=0;i<11;i++) printf("%016" PRIx64 " ",hs[i]); puts("");
}

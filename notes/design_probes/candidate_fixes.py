#!/usr/bin/env python3
"""Design-phase note, NOT part of the machinery.

Applies the candidate repairs F1..F9 discussed in DESIGN.md section 7 to a
*scratch copy* of arturbac/fixed_math:

    python3 candidate_fixes.py /tmp/some_copy_of_repo

It was used once to check that the planned repairs are feasible (39/39 tests,
probes clean). The real repairs will be separate `fix:` commits in /repo, each
made only after the finished check has reproduced the defect.
"""
import sys

root = sys.argv[1]
p = root + '/fixed_lib/include/fixedmath/math.h'
s = open(p).read()


def rep(a, b, cnt=1):
    """replace `a` by `b`; trailing blanks at line ends of the source are ignored"""
    global s
    import re
    lines = a.split('\n')
    pat = r'[ \t]*\n'.join(re.escape(l.rstrip()) for l in lines[:-1])
    pat += r'[ \t]*\n' + re.escape(lines[-1]) if len(lines) > 1 else re.escape(a)
    found = re.findall(pat, s)
    assert len(found) == cnt, (len(found), a[:70])
    s = re.sub(pat, lambda m: b, s)


# F1 addition / substraction: unsigned arithmetic, INT64_MIN -> -NaN
rep("""      fixed_t result { fix_carrier_t{lh.v + rh.v} };
      if( fixed_unlikely(result >= 0_fix) )
        {
        if( fixed_unlikely((lh < 0_fix ) && ( rh < 0_fix)) )
          return -quiet_NaN_result();
        }
      else
        {
        if( fixed_unlikely((lh > 0_fix ) && ( rh > 0_fix )) )
          return quiet_NaN_result();
        }
      return result;""",
"""      //unsigned addition wraps, signed overflow is undefined and lets the optimiser drop the checks below
      fixed_t result { fix_carrier_t{static_cast<fixed_internal>(
        static_cast<fixed_internal_unsigned>(lh.v) + static_cast<fixed_internal_unsigned>(rh.v) )} };
      if( fixed_unlikely(result >= 0_fix) )
        {
        if( fixed_unlikely((lh < 0_fix ) && ( rh < 0_fix)) )
          return -quiet_NaN_result();
        }
      else
        {
        if( fixed_unlikely((lh > 0_fix ) && ( rh > 0_fix )) )
          return quiet_NaN_result();
        if( fixed_unlikely( result.v == std::numeric_limits<fixed_internal>::min() ) ) //below lowest()
          return -quiet_NaN_result();
        }
      return result;""")
rep("""      fixed_t result { fix_carrier_t{lh.v - rh.v}};

      if(fixed_unlikely(result >= 0_fix))
        {
        if( fixed_unlikely((lh < 0_fix) && (rh > 0_fix)) )
          return -quiet_NaN_result();
        }
      else
        {
        if( fixed_unlikely((lh > 0_fix) && (rh < 0_fix)) )
          return quiet_NaN_result();
        }
""",
"""      //unsigned substraction wraps, signed overflow is undefined and lets the optimiser drop the checks below
      fixed_t result { fix_carrier_t{static_cast<fixed_internal>(
        static_cast<fixed_internal_unsigned>(lh.v) - static_cast<fixed_internal_unsigned>(rh.v) )} };

      if(fixed_unlikely(result >= 0_fix))
        {
        if( fixed_unlikely((lh < 0_fix) && (rh > 0_fix)) )
          return -quiet_NaN_result();
        }
      else
        {
        if( fixed_unlikely((lh > 0_fix) && (rh < 0_fix)) )
          return quiet_NaN_result();
        if( fixed_unlikely( result.v == std::numeric_limits<fixed_internal>::min() ) ) //below lowest()
          return -quiet_NaN_result();
        }
""")

# F4 ceil: admit equality, unsigned add
rep("""    fixed_internal result { (value.v + 0xffff) & ~((1<<16ll)-1) };
    if( value.v < result ) """,
"""    fixed_internal result { static_cast<fixed_internal>(static_cast<fixed_internal_unsigned>(value.v) + 0xffffu) & ~((1<<16ll)-1) };
    if( value.v <= result ) """)

# F8 negative degrees in table lookups
rep("""    if(fixed_unlikely(angle < 0 || angle > 360) )
      angle = angle % 360;
    return sin_angle_tab(angle);""",
"""    if(fixed_unlikely(angle < 0 || angle > 360) )
      {
      angle = angle % 360;
      if( angle < 0 )
        angle += 360;
      }
    return sin_angle_tab(angle);""")
rep("""    if( fixed_unlikely( angle < 0 || angle > 360) )
      angle = angle % 360;
    return cos_angle_tab(angle);""",
"""    if( fixed_unlikely( angle < 0 || angle > 360) )
      {
      angle = angle % 360;
      if( angle < 0 )
        angle += 360;
      }
    return cos_angle_tab(angle);""")

# F9 angle_to_radians range test in the argument's own (possibly 8 bit) type
rep("""    if( angle >= integral_type(0) && angle <= integral_type(360) )""",
    """    if( cxx20::cmp_greater_equal(angle, 0) && cxx20::cmp_less_equal(angle, 360) )""")

# F7 abacus sqrt: unsigned loop variables
rep("""      value.v <<= 16;

      fixed_internal pwr4 { detail::highest_pwr4_clz(value.v) };

      fixed_internal result{};
      while( pwr4 != 0 )
        {
        if( value.v >= ( result + pwr4 ) )
          {
          value.v -= result + pwr4;
          result += pwr4 << 1;
          }
        result >>= 1;
        pwr4 >>= 2;
        }
      return as_fixed(result);""",
"""      //unsigned, intermediate values use all 64 bits for arguments >= 2^30
      fixed_internal_unsigned rest { static_cast<fixed_internal_unsigned>(value.v) << 16 };

      fixed_internal_unsigned pwr4 { static_cast<fixed_internal_unsigned>(detail::highest_pwr4_clz(rest)) };

      fixed_internal_unsigned result{};
      while( pwr4 != 0 )
        {
        if( rest >= ( result + pwr4 ) )
          {
          rest -= result + pwr4;
          result += pwr4 << 1;
          }
        result >>= 1;
        pwr4 >>= 2;
        }
      return as_fixed(static_cast<fixed_internal>(result));""")

# F5 tan: reflect (phi/2, phi)
rep("""    x = detail::tan_range(x);

    if( fixed_likely( x != fixpidiv2.v ) )""",
"""    x = detail::tan_range(x);
    //tan(x) = -tan(phi - x), series below are valid for 0 .. phi/2 only
    if( x > fixpidiv2.v )
      {
      x = phi.v - x;
      sign_ = !sign_;
      }

    if( fixed_likely( x != fixpidiv2.v ) )""")

# F6 atan: large arguments
rep("""    else
      result = atan_sum<prec_, atan_39o16, _39o16>( x );

    if( !sign_)""",
"""    else if( x < (fixed_internal{1}<<36) )
      result = atan_sum<prec_, atan_39o16, _39o16>( x );
    else //1 + x*c would overflow, arctan(x) = 0.5 * pi - arctan(1/x) and arctan(1/x) ~ 1/x
      result = fixpidiv2.v - detail::div_<prec_>( detail::fix_<prec_>(1), x );

    if( !sign_)""")

# F2 multiplication: real overflow check (portable; __builtin_mul_overflow is
# constexpr-usable with g++ 12 / clang++ 14 and would be the faster variant)
rep("""    [[ gnu::const, gnu::always_inline ]]
    constexpr fixed_t fixed_multiplyi (fixed_t lh, fixed_t rh) noexcept
      {
      fixed_t result { fix_carrier_t{ lh.v * rh.v }};

      if( fixed_likely( check_multiply_result(result)) )
        return fix_carrier_t{ result.v >> 16 };

      return quiet_NaN_result();
      }""",
"""    ///\\returns true when lh * rh can not be represented as fixed_internal
    [[ gnu::const, gnu::always_inline ]]
    constexpr bool multiply_overflows( fixed_internal lh, fixed_internal rh ) noexcept
      {
      if( lh == 0 || rh == 0 )
        return false;
      fixed_internal_unsigned const ulh { lh < 0 ? fixed_internal_unsigned{} - static_cast<fixed_internal_unsigned>(lh) : static_cast<fixed_internal_unsigned>(lh) };
      fixed_internal_unsigned const urh { rh < 0 ? fixed_internal_unsigned{} - static_cast<fixed_internal_unsigned>(rh) : static_cast<fixed_internal_unsigned>(rh) };
      fixed_internal_unsigned const limit { ((lh < 0) != (rh < 0)) ? fixed_internal_unsigned{1} << 63 : (fixed_internal_unsigned{1} << 63) - 1 };
      return ulh > limit / urh;
      }

    ///\\returns lh * rh, the caller is responsible for checking multiply_overflows
    [[ gnu::const, gnu::always_inline ]]
    constexpr fixed_internal multiply_wrapping( fixed_internal lh, fixed_internal rh ) noexcept
      {
      return static_cast<fixed_internal>( static_cast<fixed_internal_unsigned>(lh) * static_cast<fixed_internal_unsigned>(rh) );
      }

    [[ gnu::const, gnu::always_inline ]]
    constexpr fixed_t fixed_multiplyi (fixed_t lh, fixed_t rh) noexcept
      {
      if( fixed_likely( !multiply_overflows(lh.v, rh.v) ) )
        return fix_carrier_t{ multiply_wrapping(lh.v, rh.v) >> 16 };

      return quiet_NaN_result();
      }""")
rep("""      fixed_t result { fix_carrier_t{ lh.v * promote_type_to_signed(rh) }};

      if( fixed_likely( check_multiply_result(result)) )
        return result;
      return quiet_NaN_result();""",
"""      if constexpr ( is_unsigned_v<integral_type> && sizeof(integral_type) == sizeof(fixed_internal) )
        {
        //value does not fit signed type, the only representable product is 0
        if( fixed_unlikely( rh > static_cast<integral_type>( std::numeric_limits<fixed_internal>::max() ) ) )
          return lh.v == 0 ? lh : quiet_NaN_result();
        }
      fixed_internal const srh { promote_type_to_signed(rh) };
      if( fixed_likely( !multiply_overflows(lh.v, srh) ) )
        {
        fixed_t result { fix_carrier_t{ multiply_wrapping(lh.v, srh) }};
        if( fixed_likely( result >= limits_::lowest() && result <= limits_::max() ) )
          return result;
        }
      return quiet_NaN_result();""")

# F3 division: NaN when the pre-shift would drop bits; uint64 divisors >= 2^63
rep("""      if( fixed_likely(y.v != 0) )
        {
        fixed_t result { as_fixed( (x << 16).v / y.v ) };""",
"""      //x << 16 is lossless only for |x| < 2^31
      if( fixed_likely(y.v != 0 && x.v > -(fixed_internal{1}<<47) && x.v < (fixed_internal{1}<<47) ) )
        {
        fixed_t result { as_fixed( (x << 16).v / y.v ) };""")
rep("""      if( fixed_likely(rh != 0) )
        {
        fixed_t const result = as_fixed( lh.v / promote_type_to_signed(rh) );""",
"""      if constexpr ( is_unsigned_v<integral_type> && sizeof(integral_type) == sizeof(fixed_internal) )
        {
        //value does not fit signed type and is greater than any |lh|
        if( fixed_unlikely( rh > static_cast<integral_type>( std::numeric_limits<fixed_internal>::max() ) ) )
          return as_fixed(0);
        }
      if( fixed_likely(rh != 0) )
        {
        fixed_t const result = as_fixed( lh.v / promote_type_to_signed(rh) );""")

open(p, 'w').write(s)
print('patched', p)

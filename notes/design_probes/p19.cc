#include <fixedmath/fixed_math.hpp>
#include <cstdio>
#include <cinttypes>
#include <csignal>
#include <csetjmp>
#include <cstring>
#include <unistd.h>
#include <sys/wait.h>
#pragma GCC diagnostic ignored "-Wdeprecated-declarations"
using namespace fixedmath;
extern "C" void __ubsan_get_current_report_data(const char **, const char **, const char **, unsigned *, unsigned *, char **);
static int64_t cur_a, cur_b; static const char* cur_entry; static int nrep, nsig;
extern "C" void __ubsan_on_report(void){ const char*k,*m,*f; unsigned l,c; char*a; __ubsan_get_current_report_data(&k,&m,&f,&l,&c,&a); nrep++; printf("EV ubsan entry=%s kind=%s at=%s:%u in=(%" PRId64 ",%" PRId64 ")\n",cur_entry,k,strrchr(f,'/')?strrchr(f,'/')+1:f,l,cur_a,cur_b); }
static sigjmp_buf jb; static void h(int s){ nsig++; siglongjmp(jb,s); }
typedef int64_t(*fn)(int64_t,int64_t);
static int64_t w_add(int64_t a,int64_t b){ return (as_fixed(a)+as_fixed(b)).v; }
static int64_t w_div(int64_t a,int64_t b){ return (as_fixed(a)/as_fixed(b)).v; }
static int64_t w_sina(int64_t a,int64_t){ return sin_angle_aprox((int32_t)a).v; }
static int64_t w_atan(int64_t a,int64_t){ return atan(as_fixed(a)).v; }
static int64_t w_floor(int64_t a,int64_t){ return floor(as_fixed(a)).v; }
struct E{const char*n; fn f;} es[]={{"add",w_add},{"div",w_div},{"sin_angle_aprox",w_sina},{"atan",w_atan},{"floor",w_floor}};
int main(){
  for(auto&e:es){ fflush(stdout); pid_t p=fork(); if(p==0){
      struct sigaction sa; memset(&sa,0,sizeof sa); sa.sa_handler=h; sa.sa_flags=SA_NODEFER; for(int s:{SIGFPE,SIGSEGV,SIGBUS,SIGILL,SIGABRT}) sigaction(s,&sa,0);
      cur_entry=e.n; uint64_t s=12345; long calls=0;
      for(int i=0;i<200000;i++){ s^=s<<13; s^=s>>7; s^=s<<17; int b=1+s%63; int64_t a=(int64_t)((s*0x9E3779B97F4A7C15ull)&((1ull<<b)-1)); if(s&1)a=-a; int64_t bb=(int64_t)(s>>20)%7-3; if(i%5==0) bb=(int64_t)(s*31); if(bb==INT64_MIN)bb=1; if(!strcmp(e.n,"sin_angle_aprox")) a=(int32_t)(s>>11)%100000;
        cur_a=a; cur_b=bb; int sg; if((sg=sigsetjmp(jb,1))==0){ volatile int64_t r=e.f(a,bb); (void)r; calls++; } else { if(nsig<=3) printf("EV signal entry=%s sig=%d in=(%" PRId64 ",%" PRId64 ")\n",e.n,sg,a,bb); } }
      printf("SUMMARY entry=%s calls=%ld ubsan_reports=%d signals=%d\n",e.n,calls,nrep,nsig); fflush(stdout); _exit(0);} int st; waitpid(p,&st,0); if(!WIFEXITED(st)||WEXITSTATUS(st)) printf("child %s died st=%d\n",e.n,st); }
}

#include <fixedmath/fixed_math.hpp>
#include <cstdio>
#include <cinttypes>
#include <cstring>
#include <random>
#include <vector>
using namespace fixedmath; typedef __int128 i128;
static std::mt19937_64 g(5);
static const int64_t MX=INT64_MAX-1;
static bool isn(int64_t v){ return v==INT64_MAX||v==-INT64_MAX; }
static std::vector<int64_t> lattice(){ std::vector<int64_t> L={0}; for(int j=1;j<=4;j++){L.push_back(j);L.push_back(-j);} for(int k=0;k<=62;k++){ for(int d=-1;d<=1;d++){ int64_t v=(1ll<<k)+d; L.push_back(v); L.push_back(-v);} } for(int j=0;j<=4;j++){ L.push_back(MX-j); L.push_back(-MX+j);} L.push_back((2147483647ll<<16)); L.push_back(-(2147483647ll<<16)); L.push_back((2147483647ll<<16)+65535); return L; }
static int64_t rnd(){ int b=1+g()%63; int64_t r=(int64_t)(g()&((1ull<<b)-1)); if(r>MX) r=MX; return (g()&1)?-r:r; }
long viol[16];
#define V(i,fmt,...) do{ if(viol[i]++<4) printf("V%d " fmt "\n", i, __VA_ARGS__);}while(0)
template<class T> void mixed(int64_t ar, T t, const char*tn){
  fixed_t a=as_fixed(ar); fixed_t ft{t}; if(isnan(ft)) return;
  if((a+t).v!=(a+ft).v || (t+a).v!=(ft+a).v) V(0,"add %s a=%ld t=%lld",tn,ar,(long long)t);
  if((a-t).v!=(a-ft).v || (t-a).v!=(ft-a).v) V(1,"sub %s a=%ld t=%lld",tn,ar,(long long)t);
  if((t/a).v!=(ft/a).v && ar!=0 && !(ft.v<= -(1ll<<47))) V(2,"t/a %s a=%ld t=%lld",tn,ar,(long long)t);
  fixed_t c=a; c+=t; if(c.v!=(a+t).v) V(3,"+= %s",tn); c=a; c-=t; if(c.v!=(a-t).v) V(3,"-= %s",tn); c=a; c*=t; if(c.v!=(a*t).v) V(3,"*= %s",tn); if(t!=0){ c=a; c/=t; if(c.v!=(a/t).v) V(3,"/= %s",tn);} 
  if constexpr(std::is_integral_v<T>){ i128 e=(i128)ar*(i128)t; int64_t r=(a*t).v, r2=(t*a).v; if(r!=r2) V(4,"mul order %s",tn); bool in=(e>=-(i128)MX&&e<=(i128)MX); if(in? r!=(int64_t)e : !isn(r)) V(5,"mul %s a=%ld t=%lld got %ld",tn,ar,(long long)t,r);
     if(t!=0){ i128 qq=(i128)ar/(i128)t; int64_t d=(a/t).v; if(d!=(int64_t)qq) V(6,"div %s a=%ld t=%llu got %ld want %ld",tn,ar,(unsigned long long)t,d,(int64_t)qq);} }
}
int main(){
  auto L=lattice();
  // C16
  for(int i=0;i<300000;i++){ int64_t a = (i%3)? rnd(): L[g()%L.size()];
    mixed<int8_t>(a,(int8_t)g(),"i8"); mixed<uint8_t>(a,(uint8_t)g(),"u8"); mixed<int16_t>(a,(int16_t)g(),"i16"); mixed<uint16_t>(a,(uint16_t)g(),"u16");
    mixed<int32_t>(a,(int32_t)g(),"i32"); mixed<uint32_t>(a,(uint32_t)g(),"u32"); mixed<int64_t>(a,(int64_t)(rnd()),"i64"); mixed<uint64_t>(a,(uint64_t)(g()>>(g()%64)),"u64");
    int32_t small=(int32_t)(g()%2001)-1000; mixed<int32_t>(a,small,"i32s"); mixed<int64_t>(a,small,"i64s"); }
  printf("C16 int: add=%ld sub=%ld t/a=%ld compound=%ld mulorder=%ld mul=%ld div=%ld\n",viol[0],viol[1],viol[2],viol[3],viol[4],viol[5],viol[6]);
  // float + double
  long fv=0,dv=0; for(int i=0;i<2000000;i++){ int64_t ar=rnd(); fixed_t a=as_fixed(ar); uint32_t fb=(uint32_t)g(); float f; memcpy(&f,&fb,4); fixed_t ff{f}; if(!isnan(ff)){ if((a+f).v!=(a+ff).v||(f-a).v!=(ff-a).v||(a*f).v!=(a*ff).v|| (ff.v!=0 && (a/f).v!=(a/ff).v)) fv++; }
     uint64_t db=g(); double d; memcpy(&d,&db,8); double da=(double)a; volatile double e1=da+d,e2=da-d,e3=d-da,e4=da*d,e5=da/d,e6=d/da; double r1=a+d,r2=a-d,r3=d-a,r4=a*d,r5=a/d,r6=d/a, r7=d+a, r8=d*a; volatile double e7=d+da, e8=d*da;
     auto eq=[](double x,double y){ return memcmp(&x,&y,8)==0 || (x!=x && y!=y); }; if(!eq(r1,e1)||!eq(r2,e2)||!eq(r3,e3)||!eq(r4,e4)||!eq(r5,e5)||!eq(r6,e6)||!eq(r7,e7)||!eq(r8,e8)) { if(dv++<3) printf("double mismatch a=%ld d=%g\n",ar,d);} }
  printf("C16 float viol=%ld double viol=%ld\n",fv,dv);
  // C18
  long sv=0; for(auto x: L) for(int r=-70;r<=63;r++){ fixed_t X=as_fixed(x); int64_t sr=(X>>r).v, sl=(X<<r).v; if(r<0){ if(!isn(sr)||!isn(sl)) sv++; continue;} i128 fl = (i128)x >> r; if(sr!=(int64_t)fl) { if(sv++<4) printf("shr x=%ld r=%d got %ld\n",x,r,sr);} i128 p=(i128)x<<r; if(x<0) p=-(((i128)(-(i128)x))<<r); bool in=p>=-(i128)MX&&p<=(i128)MX; if(in){ if(sl!=(int64_t)p){ if(sv++<4) printf("shl x=%ld r=%d got %ld want %ld\n",x,r,sl,(int64_t)p);} } else { if((x>0&&sl<0)||(x<0&&sl>0)) { if(sv++<4) printf("shl sign x=%ld r=%d got %ld\n",x,r,sl);} } }
  for(int i=0;i<3000000;i++){ int64_t x=rnd(); int r=g()%64; fixed_t X=as_fixed(x); int64_t sr=(X>>r).v, sl=(X<<r).v; i128 fl=(i128)x>>r; if(sr!=(int64_t)fl) sv++; i128 p= x<0? -(((i128)(-(i128)x))<<r) : ((i128)x<<r); bool in=p>=-(i128)MX&&p<=(i128)MX; if(in? sl!=(int64_t)p : ((x>0&&sl<0)||(x<0&&sl>0))) sv++; }
  printf("C18 viol=%ld\n",sv);
  // C17 basic
  long lv[8]={0}; for(int i=0;i<3000000;i++){ int64_t a=(i%4)?rnd():L[g()%L.size()], b=(i%5)?rnd():L[g()%L.size()], c=rnd(); fixed_t A=as_fixed(a),B=as_fixed(b),C=as_fixed(c);
    if((A+B).v!=(B+A).v) lv[0]++; if((A*B).v!=(B*A).v) lv[1]++; if((A-B).v!=(A+(-B)).v) lv[2]++; if((A-A).v!=0) lv[2]++;
    if((a<0?-a:a)<(1ll<<47)){ if((A*fixed_t{1}).v!=a||(A*fixed_t{0}).v!=0||(A/fixed_t{1}).v!=a||(a!=0&&(A/A).v!=65536)) lv[3]++; }
    fixed_t s=A+B; if(!isnan(s)){ fixed_t d=s-B; if(!isnan(d)&&d.v!=a) lv[4]++; fixed_t t1=s+C, t2=B+C; fixed_t t3=A+t2; if(!isnan(t1)&&!isnan(t2)&&!isnan(t3)&&t1.v!=t3.v) lv[5]++; }
    int n=(int)(g()%2001)-1000; if(n!=0){ fixed_t m=A*n; if(!isnan(m)){ fixed_t q=m/n; if(!isnan(q)&&q.v!=a) { if(lv[6]++<3) printf("(a*n)/n a=%ld n=%d m=%ld q=%ld\n",a,n,m.v,q.v);} } }
    if(a<b){ fixed_t x=A+C,y=B+C; if(!isnan(x)&&!isnan(y)&&x.v>y.v) lv[7]++; } }
  printf("C17 comm+=%ld comm*=%ld sub=%ld unit=%ld addsub=%ld assoc=%ld muldiv=%ld mono=%ld\n",lv[0],lv[1],lv[2],lv[3],lv[4],lv[5],lv[6],lv[7]);
}

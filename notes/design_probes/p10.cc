#include <fixedmath/fixed_math.hpp>
#include <cstdio>
#include <cinttypes>
using namespace fixedmath;
extern "C" void __ubsan_get_current_report_data(const char **OutIssueKind, const char **OutMessage, const char **OutFilename, unsigned *OutLine, unsigned *OutCol, char **OutMemoryAddr);
static int64_t cur_a, cur_b; static int nrep;
extern "C" void __ubsan_on_report(void){ const char*k,*m,*f; unsigned l,c; char*a; __ubsan_get_current_report_data(&k,&m,&f,&l,&c,&a); nrep++; fprintf(stdout,"HOOK kind=%s file=%s:%u:%u input=(%" PRId64 ",%" PRId64 ") msg=%s\n",k,f,l,c,cur_a,cur_b,m); }
__attribute__((noinline)) fixed_t add1(fixed_t a, fixed_t b){ return a+b; }
__attribute__((noinline)) fixed_t add2(fixed_t a, fixed_t b){ return a+b; }
int main(){
  volatile int64_t mx=0x7ffffffffffffffell;
  for(int i=0;i<3;i++){ cur_a=mx; cur_b=mx-i; add1(as_fixed(cur_a),as_fixed(cur_b)); }
  for(int i=0;i<3;i++){ cur_a=mx-7; cur_b=mx-i; add2(as_fixed(cur_a),as_fixed(cur_b)); }
  printf("reports=%d\n",nrep);
}

#include <fixedmath/fixed_math.hpp>
#include <cstdio>
#include <cinttypes>
using namespace fixedmath;
using L = std::numeric_limits<fixed_t>;
__attribute__((noinline)) fixed_t add_ool(fixed_t a, fixed_t b){ return a+b; }
__attribute__((noinline)) fixed_t sub_ool(fixed_t a, fixed_t b){ return a-b; }
__attribute__((noinline)) fixed_t mul_ool(fixed_t a, fixed_t b){ return a*b; }
__attribute__((noinline)) fixed_t div_ool(fixed_t a, fixed_t b){ return a/b; }
static void show(const char*n, fixed_t r){ printf("%-40s raw=%" PRId64 " (0x%" PRIx64 ") isnan=%d\n", n, r.v, (uint64_t)r.v, (int)isnan(r)); }
int main(int argc,char**argv){
  volatile int64_t mx = L::max().v, lo = L::lowest().v;
  show("max+max", add_ool(as_fixed(mx), as_fixed(mx)));
  show("max+1raw", add_ool(as_fixed(mx), as_fixed(1)));
  show("max+2raw", add_ool(as_fixed(mx), as_fixed(2)));
  show("max+3raw", add_ool(as_fixed(mx), as_fixed(3)));
  show("lowest+(-1raw)", add_ool(as_fixed(lo), as_fixed(-1)));
  show("lowest+(-2raw)", add_ool(as_fixed(lo), as_fixed(-2)));
  show("lowest+(-3raw)", add_ool(as_fixed(lo), as_fixed(-3)));
  show("lowest+lowest", add_ool(as_fixed(lo), as_fixed(lo)));
  show("max-lowest", sub_ool(as_fixed(mx), as_fixed(lo)));
  show("lowest-max", sub_ool(as_fixed(lo), as_fixed(mx)));
  show("lowest-2raw", sub_ool(as_fixed(lo), as_fixed(2)));
  show("0-lowest", sub_ool(as_fixed(0), as_fixed(lo)));
  show("max-(-1raw)", sub_ool(as_fixed(mx), as_fixed(-1)));
  // mul
  show("65536.0*65536.0 (2^32)", mul_ool(fixed_t{65536}, fixed_t{65536}));
  show("32768*65536 (2^31)", mul_ool(fixed_t{32768}, fixed_t{65536}));
  show("46341*46341", mul_ool(fixed_t{46341}, fixed_t{46341}));
  show("2^20*2^20", mul_ool(fixed_t{1<<20}, fixed_t{1<<20}));
  show("2^23*2^24 exact 2^47", mul_ool(fixed_t{1<<23}, fixed_t{1<<24}));
  show("max*max", mul_ool(as_fixed(mx), as_fixed(mx)));
  show("-3.5*0.5", mul_ool(fixed_t{-3.5}, as_fixed(1)));
  show("-1raw*1raw", mul_ool(as_fixed(-1), as_fixed(1)));
  show("max*2 (int)", as_fixed(mx)*2);
  show("max*int64 big", as_fixed(mx)*(int64_t)0x100000000ll);
  show("1.0*uint64 2^63", fixed_t{1}*(uint64_t)0x8000000000000000ull);
  show("1.0*uint64 max", fixed_t{1}*(uint64_t)0xffffffffffffffffull);
  show("1.0*uint32 max", fixed_t{1}*(uint32_t)0xffffffffu);
  show("1.0*int 2^31-1", fixed_t{1}*(int)0x7fffffff);
  show("2^31-1 * 2^16 int", fixed_t{0x7fffffff}*(int)65536);
  // div
  show("1/0", div_ool(fixed_t{1}, fixed_t{0}));
  show("2^31/1", div_ool(as_fixed(1ll<<47), fixed_t{1}));
  show("2^32/1", div_ool(as_fixed(1ll<<48), fixed_t{1}));
  show("max/1", div_ool(as_fixed(mx), fixed_t{1}));
  show("1/1raw", div_ool(fixed_t{1}, as_fixed(1)));
  show("2^31-1/1raw", div_ool(fixed_t{0x7fffffff}, as_fixed(1)));
  show("10/uint64(2^63)", fixed_t{10}/(uint64_t)0x8000000000000000ull);
  show("10/uint64 max", fixed_t{10}/(uint64_t)0xffffffffffffffffull);
  show("lowest/ -1 int", as_fixed(lo)/(-1));
  return 0;
}

#include <fixedmath/fixed_math.hpp>
#include <cstdio>
#include <cmath>
#include <cstring>
#include <cinttypes>
#include <random>
#include <cfloat>
extern "C" { __float128 frexpq(__float128,int*); __float128 scalbnq(__float128,int); __float128 floorq(__float128); }
using namespace fixedmath; using q=__float128;
static bool isn(int64_t v){ return v==INT64_MAX||v==-INT64_MAX; }
template<class T> static int check(T v, int64_t r, const char*tn, uint64_t bits){
  bool inrange = std::isfinite(v) && std::fabs((double)v) < 2147483647.0;
  if(!inrange){ if(!isn(r)){ printf("%s bits=%" PRIx64 " v=%g out-of-range but r=%ld\n",tn,bits,(double)v,r); return 1;} return 0; }
  if(isn(r)){ printf("%s bits=%" PRIx64 " v=%.17g in-range but NaN\n",tn,bits,(double)v); return 1; }
  q av = v<0? -(q)v : (q)v; q s = av*65536 + (q)0.5;   // exact
  // half ulp of T at s
  int e; (void)frexpq((__float128)s,&e); // s = m*2^e, m in [0.5,1)
  int digits = std::numeric_limits<T>::digits; q halfulp = scalbnq((q)1, e-digits-1);
  // if s representable in T then delta=0
  T st=(T)s; q delta = ((q)st==s)? (q)0 : halfulp;
  // ulp at binade boundary could be bigger upward; be generous: use ulp of s+delta as well
  q lo=floorq(s-delta), hi=floorq(s+delta);
  q ar = r<0? -(q)r : (q)r; bool signok = (r==0) || ((r<0)==(v<0));
  if(!signok || ar<lo || ar>hi){ printf("%s bits=%" PRIx64 " v=%.17g r=%ld allowed |r| in [%g,%g]\n",tn,bits,(double)v,r,(double)lo,(double)hi); return 1;}
  return 0;
}
int main(int argc,char**argv){
  long viol=0, n=0, inr=0, slack=0;
  uint32_t step = argc>1? atoi(argv[1]) : 1;
  for(uint64_t b=0;b<(1ull<<32);b+=step){ uint32_t bb=(uint32_t)b; float f; memcpy(&f,&bb,4); int64_t r=fixed_t{f}.v; n++; viol+=check<float>(f,r,"f32",bb); if(viol>10) break; }
  printf("float: n=%ld viol=%ld\n",n,viol);
  std::mt19937_64 g(3); viol=0; n=0;
  for(int i=0;i<20000000;i++){ uint64_t bb=g(); if(i&1){ // in-range-ish: random exponent within [-20,31)
      int ex = (int)(g()%52)-20; bb = (bb & 0x800fffffffffffffull) | ((uint64_t)(1023+ex)<<52); }
    if((i%8)==3){ // halfway cases
      int64_t k=(int64_t)(g()>>(17+g()%40)); double d=((double)k+0.5)/65536.0; if(g()&1) d=-d; if(g()&1) d=std::nextafter(d, (g()&1)?1e300:-1e300); memcpy(&bb,&d,8);} 
    double d; memcpy(&d,&bb,8); int64_t r=fixed_t{d}.v; n++; viol+=check<double>(d,r,"f64",bb); if(viol>10) break; }
  printf("double: n=%ld viol=%ld\n",n,viol);
  // fixed->float correctly rounded, fixed->double exact
  viol=0; for(int i=0;i<20000000;i++){ int b=1+g()%63; int64_t r=(int64_t)(g()&((1ull<<b)-1)); if(g()&1) r=-r; float f=(float)as_fixed(r); float ref=(float)((long double)r/65536.0L); if(memcmp(&f,&ref,4)) {viol++; if(viol<5) printf("to-float r=%ld got %a want %a\n",r,f,ref);} 
     if((r<0?-r:r)<=(1ll<<53)){ double d=(double)as_fixed(r); if((long double)d*65536.0L!=(long double)r){viol++; if(viol<5) printf("to-double inexact r=%ld\n",r);} } }
  printf("fixed->fp viol=%ld\n",viol);
}

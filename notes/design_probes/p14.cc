#include <fixedmath/fixed_math.hpp>
#include <cstdio>
using namespace fixedmath;
__attribute__((noinline)) int64_t f(int64_t r){ return sqrt(as_fixed(r)).v; }
int main(){ volatile int64_t r=131072; printf("sqrt(2.0) run=%ld abacus=%ld std=%ld  cplusplus=%ld\n", f(r), detail::sqrt_abacus(as_fixed(r)).v, detail::sqrt_std_math(as_fixed(r)).v, (long)__cplusplus); }

#include <cstring>
#include <fixedmath/fixed_math.hpp>
#include <cstdio>
#include <cinttypes>
#include <cmath>
#include <random>
#pragma GCC diagnostic ignored "-Wdeprecated-declarations"
using namespace fixedmath;
static std::mt19937_64 g(7);
static volatile int64_t sink;
static int64_t rv(){ switch(g()%8){ case 0: return (int64_t)g(); case 1: {int b=1+g()%63; int64_t r=(int64_t)(g()&((1ull<<b)-1)); return (g()&1)?-r:r;} case 2: return INT64_MAX - (int64_t)(g()%4); case 3: return -INT64_MAX + (int64_t)(g()%4); case 4: return (int64_t)(g()%8)-4; case 5: { int b=g()%63; int64_t r=(1ll<<b) + (int64_t)(g()%5)-2; return (g()&1)?-r:r;} case 6: return (int64_t)(g()%(1<<20)) - (1<<19); default: {int64_t r=(int64_t)(g()>>16); return (g()&1)?-r:r;} } }
static fixed_t fx(){ int64_t r=rv(); if(r==INT64_MIN) r=INT64_MAX; return as_fixed(r); }
#define S(e) sink = (e).v
int main(int argc,char**argv){
  long n=argc>1?atol(argv[1]):200000;
  for(long i=0;i<n;i++){
    fixed_t a=fx(), b=fx(); int sh = (g()%4==0)? (int)(int32_t)g() : (int)(g()%64); if(sh>63) sh=63;
    int32_t d=(int32_t)g(); if(g()&1) d%=1000; if(d<0) d=-d; if(d<0) d=0;
    S(a+b); S(a-b); S(a*b); if(!(a.v==INT64_MIN)) S(a/b); S(-a); S(abs(a)); sink=isnan(a);
    S(a>>sh); S(a<<sh); S(a&b); S(ceil(a)); S(floor(a));
    S(sin(a)); S(cos(a)); S(tan(a)); S(atan(a)); S(atan2(a,b)); S(asin(a)); S(acos(a)); S(sqrt(a)); S(hypot(a,b));
    S(detail::sqrt_abacus(a));
    S(sqrt_aprox(a)); S(hypot_aprox(a,b)); S(atan_index_aprox(a)); S(sin_angle_aprox(d)); S(cos_angle_aprox(d));
    S(a*(int)d); S(a/(int)d); S(a*(int64_t)rv()); S(a/(int64_t)rv()); S(a*(uint64_t)rv()); S(a/(uint64_t)rv());
    S(fixed_t{(int64_t)rv()}); S(fixed_t{(uint64_t)rv()}); 
    double dd; uint64_t bits=g(); memcpy(&dd,&bits,8); float ff; uint32_t fb=(uint32_t)g(); memcpy(&ff,&fb,4);
    S(fixed_t{dd}); S(fixed_t{ff}); sink=(int64_t)(int)a; sink=(int64_t)(uint8_t)a; sink=(int64_t)(double)a;
    S(angle_to_radians(d)); S(sin_angle(d)); S(cos_angle(d)); S(tan_angle(d)); S(sin_angle(a)); S(tan_angle(ff));
  }
  puts("done");
}

#include <fixedmath/fixed_math.hpp>
#include <cstdio>
#include <cinttypes>
#include <csignal>
#include <csetjmp>
using namespace fixedmath;
using L = std::numeric_limits<fixed_t>;
static sigjmp_buf jb;
static void h(int s){ siglongjmp(jb, s); }
__attribute__((noinline)) fixed_t div_ool(fixed_t a, fixed_t b){ return a/b; }
template<class T> __attribute__((noinline)) fixed_t divs(fixed_t a, T b){ return a/b; }
static void show(const char*n, fixed_t r){ printf("%-40s raw=%" PRId64 " (0x%" PRIx64 ") isnan=%d\n", n, r.v, (uint64_t)r.v, (int)isnan(r)); }
#define TRY(name, expr) do{ int s; if((s=sigsetjmp(jb,1))==0){ show(name, expr);} else printf("%-40s SIGNAL %d\n", name, s);}while(0)
int main(){
  signal(SIGFPE,h);
  volatile int64_t mx = L::max().v, lo = L::lowest().v;
  // C03 trap search: (x<<16).v / y.v == INT64_MIN / -1 ; x<<16 keeps sign bit: result = (x<<16 & 0x7f..) | sign. For INT64_MIN need sign=1 and low 63 bits zero after shift: x.v negative with low 47 bits zero: x = -2^47 * k...
  TRY("(-2^47raw)/( -1raw)", div_ool(as_fixed(-(1ll<<47)), as_fixed(-1)));
  TRY("(-2^48raw)/( -1raw)", div_ool(as_fixed(-(1ll<<48)), as_fixed(-1)));
  TRY("(-2^62raw)/( -1raw)", div_ool(as_fixed(-(1ll<<62)), as_fixed(-1)));
  TRY("lowest / -1raw", div_ool(as_fixed(lo), as_fixed(-1)));
  TRY("int64min-ish scalar: lowest/(int64)-1", divs<int64_t>(as_fixed(lo), -1));
  TRY("-2^47raw / 1.0", div_ool(as_fixed(-(1ll<<47)), fixed_t{1}));
  TRY("-1.0 / 1.0", div_ool(fixed_t{-1}, fixed_t{1}));
  TRY("-(2^31-1) / 1.0", div_ool(fixed_t{-2147483647}, fixed_t{1}));
  TRY("-(2^31-1)-0.5 / 1.0", div_ool(as_fixed(-(2147483647ll<<16)-32768), fixed_t{1}));
  TRY("-3 / 2", div_ool(fixed_t{-3}, fixed_t{2}));
  TRY("-1raw / 3.0", div_ool(as_fixed(-1), fixed_t{3}));
  TRY("7/uint8 200", divs<uint8_t>(fixed_t{7}, 200));
  TRY("7/int8 -128", divs<int8_t>(fixed_t{7}, -128));
  TRY("7/uint64 2^63", divs<uint64_t>(fixed_t{7}, 1ull<<63));
  TRY("7/uint64 2^63+1", divs<uint64_t>(fixed_t{7}, (1ull<<63)+1));
  TRY("7/uint32 4e9", divs<uint32_t>(fixed_t{7}, 4000000000u));
  // C04
  printf("int2fix(2^31-1)=%" PRId64 " (-(2^31-1))=%" PRId64 " INT32_MIN nan=%d 2^31 u32 nan=%d u64max nan=%d i64min nan=%d\n",
    fixed_t{2147483647}.v, fixed_t{-2147483647}.v, isnan(fixed_t{INT32_MIN}), isnan(fixed_t{2147483648u}), isnan(fixed_t{UINT64_MAX}), isnan(fixed_t{INT64_MIN}));
  printf("fix2int: -0.5->int %d ; -1raw->int %d; -1raw->uint %u; 255.9->u8 %u; 256->u8 %u; -129->i8 %d; -128.5->i8 %d ; -128->i8 %d; max->i64 %" PRId64 " lowest->i64 %" PRId64 " 2^31->i32 %d  -0.5->u64 %" PRIu64 "\n",
    (int)fixed_t{-0.5}, (int)as_fixed(-1), (unsigned)as_fixed(-1), (unsigned)(uint8_t)fixed_t{255.9}, (unsigned)(uint8_t)fixed_t{256}, (int)(int8_t)fixed_t{-129}, (int)(int8_t)fixed_t{-128.5}, (int)(int8_t)fixed_t{-128},
    (int64_t)as_fixed(mx), (int64_t)as_fixed(lo), (int32_t)as_fixed(1ll<<47), (uint64_t)fixed_t{-0.5});
  // C06
  printf("isnan(NaN)=%d isnan(-NaN)=%d isnan(INT64_MIN)=%d isnan(max)=%d isnan(lowest)=%d abs(lowest)=%" PRId64 " -(-lowest)==lowest %d\n",
     isnan(as_fixed(INT64_MAX)), isnan(as_fixed(-INT64_MAX)), isnan(as_fixed(INT64_MIN)), isnan(as_fixed(mx)), isnan(as_fixed(lo)), abs(as_fixed(lo)).v, (-(-as_fixed(lo))).v==lo);
  // C15
  auto fc=[&](int64_t r){ fixed_t x=as_fixed(r); printf("x=%" PRId64 " floor=%" PRId64 " ceil=%" PRId64 " ceilnan=%d\n", r, floor(x).v, ceil(x).v, isnan(ceil(x))); };
  fc(0); fc(65536); fc(-65536); fc(1); fc(-1); fc(65535); fc(-65535); fc(3<<16); fc((1ll<<47)-2); fc((1ll<<62)+5); fc(-(1ll<<62)-5); fc(mx); fc(lo); fc(0x7fffffffffff0000ll); fc(0x7fffffffffff0001ll);
  fc(((1ll<<47)-1)<<16); fc((((1ll<<47)-1)<<16)-1); fc(-(((1ll<<47)-1)<<16)+1);
  // C18
  auto sh=[&](int64_t r,int s){ fixed_t x=as_fixed(r); printf("x=%" PRId64 " s=%d  >> %" PRId64 "  << %" PRId64 "\n", r, s, (x>>s).v, (x<<s).v); };
  sh(65536,1); sh(-65536,1); sh(-1,1); sh(-1,63); sh(1,62); sh(1,63); sh(-1,62); sh(-1,63); sh(-3,62); sh(3,62); sh(mx,1); sh(lo,1); sh(5,-1); sh(-65536, 47); sh(-65536,46); sh(-2,62); sh(-1,0);
  return 0;
}

#include <fixedmath/fixed_math.hpp>
#include <cstdio>
#include <cinttypes>
#include <cmath>
#include <random>
using namespace fixedmath;
using ld = long double;
static const ld PI = 3.14159265358979323846264338327950288L;
static ld val(fixed_t x){ return (ld)x.v/65536.0L; }
static std::mt19937_64 g(7);
static int64_t rnd_mag(int maxbits){ int b = 1 + g()%maxbits; int64_t r = (int64_t)(g() & ((1ull<<b)-1)); return (g()&1)? -r : r; }
#ifdef ABACUS
#define SQ(x) detail::sqrt_abacus(x)
#else
#define SQ(x) sqrt(x)
#endif
int main(){
  // C12
  {
    int viol=0, odd=0, mono=0, acv=0; ld worst=0; int64_t w=0; int64_t prev=INT64_MIN;
    for(int64_t r=-65536;r<=65536;++r){
      fixed_t a=asin(as_fixed(r)); 
      // exists x' within 2ulp of x s.t. |asin(x) - asin x'| <= 4ulp : asin monotone so check interval [asin(x-2ulp), asin(x+2ulp)] expanded by 4ulp contains a
      ld lo=asinl(fmaxl(-1.0L,(r-2)/65536.0L)) - 4.0L/65536, hi=asinl(fminl(1.0L,(r+2)/65536.0L)) + 4.0L/65536;
      ld av=val(a);
      if(av<lo||av>hi){ if(viol++<8) printf("asin viol r=%ld got=%Lf lo=%Lf hi=%Lf\n",r,av,lo,hi);} 
      ld m=fmaxl(lo-av,av-hi); 
      if(asin(as_fixed(-r)).v!=-a.v) odd++;
      if(prev!=INT64_MIN && a.v<prev){ if(mono++<8) printf("asin mono viol r=%ld prev=%ld cur=%ld\n",r,prev,a.v);} prev=a.v;
      fixed_t c=acos(as_fixed(r)); int64_t d=c.v-(102944-a.v); if(d<-1||d>1) acv++;
      if(c.v < -1 || c.v > 205888) { printf("acos range viol r=%ld c=%ld\n",r,c.v);} 
    }
    printf("C12 viol=%d odd=%d mono=%d acosviol=%d  nan(1+1raw)=%d nan(-1-1raw)=%d acosnan=%d %d\n",viol,odd,mono,acv,isnan(asin(as_fixed(65537))),isnan(asin(as_fixed(-65537))),isnan(acos(as_fixed(65537))),isnan(acos(as_fixed(-65537))));
    printf("asin(max) nan=%d asin(lowest) nan=%d asin(NaN)=%d asin(-NaN)=%d\n",isnan(asin(as_fixed(INT64_MAX-1))),isnan(asin(as_fixed(-INT64_MAX+1))),isnan(asin(as_fixed(INT64_MAX))),isnan(asin(as_fixed(-INT64_MAX))));
  }
  // C13
  {
    int viol=0, mono=0; int64_t prev=-1; ld worst=0; int64_t w=0;
    for(int64_t r=0;r<(1<<24);++r){ fixed_t s=SQ(as_fixed(r)); ld t=sqrtl((ld)r/65536.0L); ld e=fabsl(val(s)-t)*65536; if(!(e<1.0L)||s.v<0){ if(viol++<5) printf("sqrt viol r=%ld got=%ld want=%Lf\n",r,s.v,t*65536);} if(e>worst){worst=e;w=r;} if(s.v<prev) mono++; prev=s.v; }
    printf("C13 exh<2^24 viol=%d worst=%Lg ulp at %ld mono=%d\n",viol,worst,w,mono);
    viol=0; worst=0;
    for(int i=0;i<20000000;i++){ int64_t r=rnd_mag(47); if(r<0) r=-r; fixed_t s=SQ(as_fixed(r)); ld t=sqrtl((ld)r/65536.0L); ld e=fabsl(val(s)-t)*65536; if(!(e<1.0L)||s.v<0){ if(viol++<5) printf("sqrt viol r=%ld got=%ld want=%Lf\n",r,s.v,t*65536);} if(e>worst){worst=e;w=r;}
      fixed_t s2=SQ(as_fixed(r+1)); if(s2.v<s.v && r+1 < (1ll<<47)) mono++; }
    printf("C13 rnd viol=%d worst=%Lg ulp at %ld mono=%d\n",viol,worst,w,mono);
    // squares
    int sqv=0; for(int64_t n=0;n<=46340;n++){ if(SQ(fixed_t{(int)(n*n)}).v != n<<16) sqv++; } 
    for(int i=0;i<2000000;i++){ int64_t nr = g()% (1ll<<31); /* n raw, n*n raw = nr*nr>>16 must be exact */ nr &= ~0xffll; __int128 sq=(__int128)nr*nr; if(sq & 0xffff) continue; int64_t q=(int64_t)(sq>>16); if(q>=(1ll<<47)) continue; if(SQ(as_fixed(q)).v!=nr) sqv++; }
    printf("squares viol=%d ; sqrt(-1raw) nan=%d sqrt(lowest) nan=%d sqrt(0)=%ld\n",sqv,isnan(SQ(as_fixed(-1))),isnan(SQ(as_fixed(-INT64_MAX+1))),SQ(as_fixed(0)).v);
  }
  // C14
  {
    int viol=0,sym=0,nanv=0; ld worst_small=0, worst_rel=0; 
    for(int i=0;i<10000000;i++){ int64_t a=rnd_mag(47), b=rnd_mag(47); fixed_t h=hypot(as_fixed(a),as_fixed(b)); ld t=sqrtl((ld)a*a+(ld)b*b)/65536.0L; ld e=fabsl(val(h)-t);
      bool small = (a<0?-a:a) < (16384ll<<16) && (b<0?-b:b) < (16384ll<<16);
      bool bad = small ? e*65536>2.0L : e > 1.5e-4L*t; if(isnan(h)||h.v<0) nanv++;
      if(bad){ if(viol++<8) printf("hypot viol a=%ld b=%ld got=%Lf want=%Lf small=%d\n",a,b,val(h),t,small);} 
      if(small) worst_small=fmaxl(worst_small,e*65536); else worst_rel=fmaxl(worst_rel,e/t);
      if(hypot(as_fixed(b),as_fixed(a)).v!=h.v || hypot(as_fixed(a<0?-a:a),as_fixed(b<0?-b:b)).v!=h.v) sym++;
    }
    printf("C14 viol=%d sym=%d nan/neg=%d worst_small=%Lg ulp worst_rel=%Lg\n",viol,sym,nanv,worst_small,worst_rel);
  }
}

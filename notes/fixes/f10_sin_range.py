from fixlib import *
rep(MATH, """        rad = as_fixed( ( phi2.v + rad.v) % _2phi.v - phi2.v );""",
"""        //reduce before adding phi2, phi2.v + rad.v overflows for arguments close to max() and for NaN
        rad = as_fixed( ( phi2.v + rad.v % _2phi.v ) % _2phi.v - phi2.v );""")

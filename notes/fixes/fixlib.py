"""Whitespace-tolerant replace helper used to write the `fix:` commits in /repo (source lines carry trailing blanks)."""
import re, sys

def rep(path, a, b, cnt=1):
    s = open(path).read()
    lines = a.split('\n')
    pat = r'[ \t]*\n'.join(re.escape(l.rstrip()) for l in lines)
    found = re.findall(pat, s)
    assert len(found) == cnt, (len(found), a[:80])
    s = re.sub(pat, lambda m: b, s)
    open(path, 'w').write(s)

MATH = '/repo/fixed_lib/include/fixedmath/math.h'

#!/bin/sh
# Repository's own test suite with the verification guard OFF (no -DFIXEDMATH_VERIF anywhere): configure a scratch
# build tree outside /repo and /verif, build, run ctest, remove the tree.
set -e
B=$(mktemp -d /tmp/fixedmath_baseline.XXXXXX)
trap 'rm -rf "$B"' EXIT
cmake -S "${VERIF_REPO:-/repo}" -B "$B" -G Ninja -DCMAKE_BUILD_TYPE=RelWithDebInfo -DFIXEDMATH_ENABLE_UNIT_TESTS=ON >"$B/configure.log" 2>&1 || { cat "$B/configure.log"; exit 2; }
cmake --build "$B" >"$B/build.log" 2>&1 || { tail -50 "$B/build.log"; exit 2; }
ctest --test-dir "$B" -j8 --timeout 900

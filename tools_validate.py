#!/usr/bin/env python3-vt
"""validate MANIFEST.json and evidence/*.json against the harness schemas (needs the tooling venv: python3-vt)"""
import json, glob, sys, jsonschema
ok = True
jsonschema.validate(json.load(open('/verif/MANIFEST.json')), json.load(open('/root/.vp/MANIFEST.schema.json')))
print('MANIFEST ok')
es = json.load(open('/root/.vp/EVIDENCE.schema.json'))
for f in sorted(glob.glob('/verif/evidence/*.json')):
    try:
        jsonschema.validate(json.load(open(f)), es)
        print('ok', f)
    except Exception as e:
        ok = False
        print('BAD', f, str(e)[:300])
sys.exit(0 if ok else 1)

#!/usr/bin/env python3
"""Regression over all seeded changes: for every /verif/seeded/<id>/ apply the patch to /repo, run the quick check of
its own property and of the related properties, restore /repo; record the outcome in meta.json (also_caught_by) and in
notes/seed_matrix.json.   tools_seedmatrix.py [--only C01-1,C02-3]"""
import json, os, glob, subprocess, sys, re, argparse, shutil
V = os.path.dirname(os.path.abspath(__file__))
REL = {'C01': ['C16', 'C17', 'C07', 'C08'], 'C02': ['C16', 'C17', 'C08'], 'C03': ['C16', 'C17', 'C07'], 'C04': ['C16', 'C08'], 'C05': ['C16', 'C08', 'C07'],
       'C06': ['C08'], 'C07': ['C05', 'C19', 'C08'], 'C08': ['C04', 'C20', 'C05', 'C13'], 'C09': ['C20', 'C08'], 'C10': ['C20', 'C08'], 'C11': ['C08', 'C19'],
       'C12': ['C08'], 'C13': ['C12', 'C14', 'C08'], 'C14': ['C13', 'C08'], 'C15': ['C08'], 'C16': ['C02', 'C03', 'C17'], 'C17': ['C02', 'C03', 'C16'],
       'C18': ['C08', 'C03'], 'C19': ['C07', 'C08'], 'C20': ['C08']}


def sh(cmd):
    return subprocess.run(cmd, capture_output=True, text=True)


WT = f'/tmp/verif_matrix_wt_{os.getpid()}'   # private worktree of /repo HEAD: the regression does not block /repo (the first confirmation of a seed is done on /repo itself by tools_seedtest.py)


def main():
    ap = argparse.ArgumentParser()
    ap.add_argument('--only')
    ap.add_argument('--own-only', action='store_true')
    a = ap.parse_args()
    sh(['git', '-C', '/repo', 'worktree', 'remove', '--force', WT])
    if sh(['git', '-C', '/repo', 'worktree', 'add', '--detach', WT, 'HEAD']).returncode != 0:
        print('cannot create worktree')
        return 2
    os.environ['VERIF_REPO'] = WT
    os.environ['VERIF_EVIDENCE_DIR'] = f'/tmp/verif_matrix_evidence_{os.getpid()}'
    os.environ['VERIF_REPLAY_DIR'] = f'/tmp/verif_matrix_replays_{os.getpid()}'
    out = {}
    for d in sorted(glob.glob(os.path.join(V, 'seeded', '*'))):
        sid = os.path.basename(d)
        if a.only and sid not in a.only.split(','):
            continue
        p = sid.split('-')[0]
        if sh(['git', '-C', WT, 'apply', os.path.join(d, 'patch.diff')]).returncode != 0:
            out[sid] = 'patch does not apply'
            continue
        res = {}
        try:
            for q in [p] + ([] if a.own_only else REL.get(p, [])):
                c = sh(['python3', os.path.join(V, 'vcheck.py'), q, '--tier', 'quick'])
                keys = re.findall(r'^  key=(.*?) count=', c.stdout, re.M)
                res[q] = {'exit': c.returncode, 'classes': len(keys), 'first': keys[:2]}
        finally:
            sh(['git', '-C', WT, 'checkout', '--', '.'])
        out[sid] = res
        m = json.load(open(os.path.join(d, 'meta.json')))
        m['regression_quick'] = {'own_property': res[p]['exit'], 'own_property_classes': res[p]['classes']}
        if not a.own_only:   # an own-property-only regression keeps what an earlier full run recorded
            m['also_caught_by'] = [q for q in res if q != p and res[q]['exit'] == 1]
            m['related_checks_silent'] = [q for q in res if q != p and res[q]['exit'] == 0]
        json.dump(m, open(os.path.join(d, 'meta.json'), 'w'), indent=1)
        print(sid, {q: (v['exit'], v['classes']) for q, v in res.items()}, flush=True)
    sh(['git', '-C', '/repo', 'worktree', 'remove', '--force', WT])
    for k in ('VERIF_EVIDENCE_DIR', 'VERIF_REPLAY_DIR'):
        shutil.rmtree(os.environ[k], ignore_errors=True)
    prev = {}
    mp = os.path.join(V, 'notes', 'seed_matrix.json')
    if os.path.exists(mp):
        prev = json.load(open(mp))
    prev.update(out)
    json.dump(prev, open(mp, 'w'), indent=1)
    return 0


if __name__ == '__main__':
    sys.exit(main())

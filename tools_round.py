#!/usr/bin/env python3
"""Confirm the deliveries of one round of seeded changes in parallel, each in a private worktree of /repo HEAD.

  tools_round.py <round-dir> --suffix p [--jobs 4] [--only C01,C02] [--origin "text"]

<round-dir>/<ID>/out/<a|b|...>/{patch.diff,demo.cc,meta.json} is what a sub-agent delivered.  For every delivery:
  1. demo on the unchanged tree (must exit 0),
  2. patch applied to a private worktree (git apply; only fixed_lib/ may be touched),
  3. the repository's own suite with the guard off (baseline_off.sh, VERIF_REPO=<worktree>) must pass 39/39,
  4. demo with the change (must exit non-zero),
  5. the quick check of the property (VERIF_REPO/VERIF_EVIDENCE_DIR/VERIF_REPLAY_DIR redirected),
and only if 1-4 hold the delivery is kept as /verif/seeded/<ID>-<suffix><n>/ with `confirmed_by_me` in meta.json.
/repo itself is never modified; every worktree and its build output is removed when its delivery is done.
"""
import sys, os, json, subprocess, argparse, re, shutil, glob, tempfile
from concurrent.futures import ThreadPoolExecutor
V = os.path.dirname(os.path.abspath(__file__))


def sh(cmd, **kw):
    return subprocess.run(cmd, shell=isinstance(cmd, str), capture_output=True, text=True, **kw)


def demo_cmd(d, repo):
    src = open(os.path.join(d, 'demo.cc')).read()
    meta = {}
    try:
        meta = json.load(open(os.path.join(d, 'meta.json')))
    except Exception:
        pass
    pat = r'((?:g\+\+|clang\+\+)[^\n]*demo\.cc[^\n]*)'
    m = re.search(pat, meta.get('compile_cmd') or '') or re.search(pat, src)
    cmd = m.group(1).strip() if m else 'g++ -std=c++17 -O2 -I fixed_lib/include demo.cc fixed_lib/src/fixed_math.cc -o demo'
    cmd = re.sub(r'-I\s*(\S*fixed_lib/include)', f'-I {repo}/fixed_lib/include', cmd)
    cmd = re.sub(r'(?<![\w/])(\S*fixed_lib/src/fixed_math\.cc)', f'{repo}/fixed_lib/src/fixed_math.cc', cmd)
    cmd = re.sub(r'-o\s+\S+', '-o demo', cmd)
    if '-o demo' not in cmd:
        cmd += ' -o demo'
    cmd = re.sub(r'(?<![\w/.])\S*/demo\.cc', 'demo.cc', cmd)
    return re.split(r'\s{2,}|\s\(|;', cmd.split('&&')[0].strip())[0].rstrip('*/ ').strip()


def run_demo(d, repo):
    w = tempfile.mkdtemp(prefix='rounddemo_')
    try:
        shutil.copy(os.path.join(d, 'demo.cc'), w)
        cmd = demo_cmd(d, repo)
        r = sh(cmd, cwd=w)
        if r.returncode != 0:
            return {'compile_failed': True, 'cmd': cmd, 'stderr': r.stderr[-500:]}
        try:
            r2 = sh(['./demo'], cwd=w, timeout=600)
            return {'cmd': cmd, 'exit': r2.returncode, 'output': (r2.stdout + r2.stderr)[-300:]}
        except subprocess.TimeoutExpired:
            return {'cmd': cmd, 'exit': 'timeout'}
    finally:
        shutil.rmtree(w, ignore_errors=True)


def one(job):
    sid, d, origin = job
    prop = sid.split('-')[0]
    wt = f'/tmp/verif_round_wt_{os.getpid()}_{sid}'
    ev = f'/tmp/verif_round_ev_{os.getpid()}_{sid}'
    res = {'sid': sid, 'src': d}
    sh(['git', '-C', '/repo', 'worktree', 'remove', '--force', wt])
    if sh(['git', '-C', '/repo', 'worktree', 'add', '--detach', wt, 'HEAD']).returncode != 0:
        res['error'] = 'cannot create worktree'
        return res
    try:
        res['demo_clean'] = run_demo(d, wt)
        a = sh(['git', '-C', wt, 'apply', os.path.join(d, 'patch.diff')])
        if a.returncode != 0:
            res['error'] = 'patch does not apply: ' + a.stderr[-300:]
            return res
        touched = sh(['git', '-C', wt, 'status', '--porcelain']).stdout.split('\n')
        res['touched'] = [t[3:] for t in touched if t.strip()]
        env = dict(os.environ, VERIF_REPO=wt, VERIF_EVIDENCE_DIR=ev, VERIF_REPLAY_DIR=ev + '_replays', VERIF_CACHE_KEEP='64')
        t = sh([os.path.join(V, 'baseline_off.sh')], env=env)
        res['tests'] = {'exit': t.returncode, 'tail': t.stdout.strip().splitlines()[-3:]}
        res['demo_patched'] = run_demo(d, wt)
        c = sh(['python3', os.path.join(V, 'vcheck.py'), prop, '--tier', 'quick'], env=env)
        keys = re.findall(r'^  key=(.*?) count=', c.stdout, re.M)
        res['check'] = {'exit': c.returncode, 'classes': len(keys), 'first_keys': keys[:3], 'stderr_tail': c.stderr[-300:] if c.returncode == 2 else ''}
    finally:
        sh(['git', '-C', '/repo', 'worktree', 'remove', '--force', wt])
        shutil.rmtree(wt, ignore_errors=True)
        shutil.rmtree(ev, ignore_errors=True)
        shutil.rmtree(ev + '_replays', ignore_errors=True)
    ok = (res['demo_clean'].get('exit') == 0 and res['tests']['exit'] == 0 and res['demo_patched'].get('exit') not in (0, None)
          and all(t.startswith('fixed_lib/') for t in res['touched']))
    res['valid_seed'] = ok
    if ok:
        out = os.path.join(V, 'seeded', sid)
        os.makedirs(out, exist_ok=True)
        for f in ('patch.diff', 'demo.cc'):
            shutil.copy(os.path.join(d, f), out)
        m = json.load(open(os.path.join(d, 'meta.json')))
        m['property'] = prop
        m['origin'] = origin
        caught = res['check']['exit'] == 1
        m['detection_history'] = ('caught as first run by the quick check as it stood before this round' if caught
                                  else f"NOT caught by the quick check as it stood before this round (exit {res['check']['exit']})")
        m['confirmed_by_me'] = {
            'existing_tests_with_change': '39/39 pass (baseline_off.sh)', 'demo_without_change_exit': res['demo_clean']['exit'],
            'demo_with_change_exit': res['demo_patched']['exit'], 'demo_cmd': res['demo_patched']['cmd'],
            'ran': 'python3 tools_round.py (private worktree of /repo HEAD: demo; git apply patch.diff; baseline_off.sh; demo; python3 vcheck.py <ID> --tier quick; worktree removed)',
            'check_result': {prop: {'exit': res['check']['exit'], 'violation_classes': res['check']['classes'], 'first_keys': res['check']['first_keys']}},
            'caught_by_quick_check_first_run': caught}
        m['regression_quick'] = {'own_property': res['check']['exit'], 'own_property_classes': res['check']['classes']}
        json.dump(m, open(os.path.join(out, 'meta.json'), 'w'), indent=1)
    print(sid, 'valid' if ok else 'INVALID', 'tests', res.get('tests', {}).get('exit'), 'demo', res['demo_clean'].get('exit', 'cf'), '->',
          res.get('demo_patched', {}).get('exit', 'cf'), 'check', res.get('check', {}).get('exit'), res.get('check', {}).get('classes'), flush=True)
    return res


def main():
    ap = argparse.ArgumentParser()
    ap.add_argument('round_dir')
    ap.add_argument('--suffix', required=True)
    ap.add_argument('--jobs', type=int, default=4)
    ap.add_argument('--only')
    ap.add_argument('--origin', default='independent sub-agent given only the property text and a scratch worktree (no access to /verif)')
    a = ap.parse_args()
    jobs = []
    for pd in sorted(glob.glob(os.path.join(a.round_dir, 'C[0-9][0-9]'))):
        prop = os.path.basename(pd)
        if a.only and prop not in a.only.split(','):
            continue
        for n, sub in enumerate(sorted(glob.glob(os.path.join(pd, 'out', '*'))), 1):
            if all(os.path.exists(os.path.join(sub, f)) for f in ('patch.diff', 'demo.cc', 'meta.json')):
                k = {'a': 1, 'b': 2}.get(os.path.basename(sub), n)
                jobs.append((f'{prop}-{a.suffix}{k}', sub, a.origin))
    with ThreadPoolExecutor(a.jobs) as ex:
        out = list(ex.map(one, jobs))
    json.dump(out, open(os.path.join(a.round_dir, f'round_result_{os.getpid()}.json'), 'w'), indent=1)
    bad = [r['sid'] for r in out if not r.get('valid_seed')]
    miss = [r['sid'] for r in out if r.get('valid_seed') and r['check']['exit'] != 1]
    print(f'{len(out)} deliveries, {len(out) - len(bad)} valid, invalid: {bad}, valid but not caught: {miss}')
    return 0


if __name__ == '__main__':
    sys.exit(main())
